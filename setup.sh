#!/bin/sh
# Offline setup: nothing to build ahead of time -- every check stages and compiles
# /repo's current tree itself.  This only verifies the toolchain is present.
set -e
cd "$(dirname "$0")"
export CARGO_NET_OFFLINE=true
cargo kani --version
cbmc --version
z3 --version
cvc5 --version | head -1
python3 --version
mkdir -p evidence logs replays
echo "setup ok"
