"""Harness metadata: parsed from `// @harness` / `// @family` comment lines in
/verif/harness/<module>.rs.

  // @harness prop=C20 tier=quick timeout=120 [stub=1] [cbmc="--unwindset f.0:4"]
  // @about free text (bounds, what is symbolic) -- copied into the evidence
  #[kani::proof]
  fn c20_time_clamp() { .. }

  // @family prop=C12 name=c12_sine_pair n=256 quick=0,1,63 seeded=2 tier=quick timeout=200
  // @about ...
  macro_rules! c12_sine_pair { ($name:ident, $k:expr) => { #[kani::proof] fn $name() {..} } }

A family is instantiated at staging time as <name>_s<kkk> for the slice numbers
the tier selects: quick = the listed boundary slices + `seeded` slices chosen
from VERIF_SEED; thorough = all n.
"""
import os
import random
import re
import shlex

from stage import HARNESS_DIR

_KV = re.compile(r'(\w+)=("([^"]*)"|\S+)')


def _kv(s):
    d = {}
    for m in _KV.finditer(s):
        d[m.group(1)] = m.group(3) if m.group(3) is not None else m.group(2)
    return d


class Harness:
    def __init__(self, module, name, kv, about):
        self.module = module
        self.name = name
        self.props = kv.get("prop", "").split(",")
        # tprop: additional properties this harness serves in the thorough tier only
        self.tprops = [x for x in kv.get("tprop", "").split(",") if x]
        self.tier = kv.get("tier", "quick")
        self.timeout = int(kv.get("timeout", "300"))
        self.stub = kv.get("stub", "0") == "1"
        self.cbmc = kv.get("cbmc", "")
        self.about = about
        self.family = kv.get("_family")
        self.slice = kv.get("_slice")
        self.solver = kv.get("solver", "")
        self.unwindset = kv.get("unwindset", "")
        # optional=1: an inconclusive result (timeout) is reported in the evidence but does not fail the check
        self.optional = kv.get("optional", "0") == "1"

    @property
    def fq(self):
        return "%s::verif::%s" % (self.module, self.name)

    def group_key(self):
        return (self.stub, self.cbmc, self.solver, self.unwindset)


def _select_slices(kv, tier, seed):
    n = int(kv["n"])
    if tier == "thorough" and kv.get("thorough", "all") == "all":
        return list(range(n))
    base = [int(x) for x in kv.get("quick", "").split(",") if x != ""]
    if tier == "thorough":
        base += [int(x) for x in kv.get("thorough", "").split(",") if x != ""]
        k = int(kv.get("tseeded", kv.get("seeded", "0")))
    else:
        k = int(kv.get("seeded", "0"))
    rest = [i for i in range(n) if i not in base]
    rnd = random.Random(("slices", kv["name"], seed).__repr__())
    rnd.shuffle(rest)
    return sorted(set(base + rest[:k]))


def load(tier, seed, only_prop=None):
    """Return (harnesses, generated) where generated maps module -> Rust text
    with the family instantiations to append to the staged harness copy."""
    hs = []
    generated = {}
    for fn in sorted(os.listdir(HARNESS_DIR)):
        if not fn.endswith(".rs"):
            continue
        mod = fn[:-3]
        with open(os.path.join(HARNESS_DIR, fn)) as fh:
            lines = fh.read().splitlines()
        i = 0
        while i < len(lines):
            ln = lines[i].strip()
            if ln.startswith("// @harness") or ln.startswith("// @family"):
                is_family = ln.startswith("// @family")
                kv = _kv(ln)
                about = []
                j = i + 1
                while j < len(lines) and lines[j].strip().startswith("// @about"):
                    about.append(lines[j].strip()[len("// @about"):].strip())
                    j += 1
                about = " ".join(about)
                if is_family:
                    fam_props = kv.get("prop", "").split(",") + (kv.get("tprop", "").split(",") if tier == "thorough" else [])
                    if only_prop is None or only_prop in fam_props:
                        if not (kv.get("tier", "quick") == "thorough" and tier == "quick"):
                            for k in _select_slices(kv, tier, seed):
                                nm = "%s_s%03d" % (kv["name"], k)
                                kv2 = dict(kv)
                                kv2["_family"] = kv["name"]
                                kv2["_slice"] = k
                                hs.append(Harness(mod, nm, kv2, about))
                                generated.setdefault(mod, "")
                                if "plus" in kv:
                                    generated[mod] += "%s!(%s, %d, %d);\n" % (kv.get("macro", kv["name"]), nm, k, k + int(kv["plus"]))
                                else:
                                    generated[mod] += "%s!(%s, %d);\n" % (kv.get("macro", kv["name"]), nm, k)
                else:
                    # find fn name
                    name = None
                    while j < len(lines):
                        m = re.match(r'\s*(?:pub(?:\(crate\))?\s+)?fn\s+(\w+)', lines[j])
                        if m:
                            name = m.group(1)
                            break
                        j += 1
                    if name is None:
                        raise SystemExit("meta: @harness without fn in %s:%d" % (fn, i + 1))
                    hs.append(Harness(mod, name, kv, about))
                i = j
            i += 1
    out = []
    for h in hs:
        if only_prop is not None and only_prop not in h.props and not (tier == "thorough" and only_prop in h.tprops):
            continue
        if h.tier == "thorough" and tier == "quick":
            continue
        out.append(h)
    return out, generated
