"""Stage a scratch crate from /repo's *current working tree*.

The repository's source files are copied verbatim; to each src/<m>.rs for which
/verif/harness/<m>.rs exists one line is appended that mounts (a staged copy of)
the harness file as a child module, so harnesses see private fields without a
single line of the repository being changed.  A cfg(kani)-only support impl is
appended to phase_accumulator.rs (constructor/accessors for its private fields).

The scratch directory lives outside /repo and /verif (tempfile.mkdtemp) and is
removed, with its build output, by Stage.cleanup().
"""
import os
import re
import shutil
import tempfile

import oracle

VERIF = os.path.dirname(os.path.dirname(os.path.abspath(__file__)))
REPO = os.environ.get("VERIF_REPO", "/repo")
HARNESS_DIR = os.path.join(VERIF, "harness")


def _deps_table(cargo_toml_text):
    """Return the text of the [dependencies] table of the repo's Cargo.toml."""
    out = []
    on = False
    for line in cargo_toml_text.splitlines():
        s = line.strip()
        if s.startswith("["):
            on = s == "[dependencies]"
            if on:
                out.append(line)
            continue
        if on:
            out.append(line)
    return "\n".join(out) + "\n"


class Stage:
    def __init__(self, keep=False, generated=None):
        """generated: dict module -> extra Rust text appended to the staged
        harness copy of that module (slice-family instantiations)."""
        self.keep = keep
        self.dir = tempfile.mkdtemp(prefix="synthverif_")
        self.generated = generated or {}
        self.modules = []
        self._build()

    def _build(self):
        d = self.dir
        shutil.copytree(os.path.join(REPO, "src"), os.path.join(d, "src"))
        for f in ("README.md", "Cargo.lock"):
            p = os.path.join(REPO, f)
            if os.path.exists(p):
                shutil.copy(p, os.path.join(d, f))
        with open(os.path.join(REPO, "Cargo.toml")) as fh:
            ct = fh.read()
        m = re.search(r'^edition\s*=\s*"(\d+)"', ct, re.M)
        edition = m.group(1) if m else "2021"
        with open(os.path.join(d, "Cargo.toml"), "w") as fh:
            fh.write('[package]\nname = "synth-utils"\nversion = "0.0.0"\n'
                     'edition = "%s"\n\n' % edition)
            fh.write(_deps_table(ct))
            fh.write("\n[workspace]\n")
        os.makedirs(os.path.join(d, ".cargo"), exist_ok=True)
        with open(os.path.join(d, ".cargo", "config.toml"), "w") as fh:
            fh.write("[net]\noffline = true\n")
        # common prelude for every harness module
        prelude = ""
        pp = os.path.join(HARNESS_DIR, "support", "prelude.rs")
        if os.path.exists(pp):
            with open(pp) as fh:
                prelude = fh.read()
        for fn in sorted(os.listdir(HARNESS_DIR)):
            if not fn.endswith(".rs"):
                continue
            mod = fn[:-3]
            src = os.path.join(d, "src", mod + ".rs")
            if not os.path.exists(src):
                # the module the harness is anchored in is gone
                continue
            with open(os.path.join(HARNESS_DIR, fn)) as fh:
                body = fh.read()
            staged = os.path.join(d, "src", "verif_%s.rs" % mod)
            with open(staged, "w") as fh:
                fh.write(prelude)
                fh.write(body)
                fh.write("\n")
                fh.write(self.generated.get(mod, ""))
                fh.write("\n")
                fh.write(oracle.text_for(mod))
            with open(src, "a") as fh:
                fh.write('\n#[cfg(kani)]\n#[path = "%s"]\nmod verif;\n' % staged)
            self.modules.append(mod)
        sup = os.path.join(HARNESS_DIR, "support")
        if os.path.isdir(sup):
            for fn in sorted(os.listdir(sup)):
                if not fn.startswith("append_") or not fn.endswith(".rs"):
                    continue
                mod = fn[len("append_"):-3]
                src = os.path.join(d, "src", mod + ".rs")
                if os.path.exists(src):
                    with open(os.path.join(sup, fn)) as fh, open(src, "a") as out:
                        out.write("\n")
                        out.write(fh.read())

    def staged_harness(self, mod):
        return os.path.join(self.dir, "src", "verif_%s.rs" % mod)

    def cleanup(self):
        if self.keep:
            return
        shutil.rmtree(self.dir, ignore_errors=True)

    def __enter__(self):
        return self

    def __exit__(self, *a):
        self.cleanup()
