"""Engine M job table (MIR -> SMT-LIB2).  Filled in by lib/mirsmt.py users."""


def jobs_for(prop, tier):
    return []


def run(stage, jobs, log_path):
    return []
