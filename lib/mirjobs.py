"""Engine M job table: SMT queries over the MIR of loop-free functions.

C11: PhaseAccumulator::set_phase (+ reset, inlined) for EVERY finite f32 phase.
C20: TimePeriod::from / SustainLevel::from for all 2^32 bit patterns (second opinion).

Every query is (1) generated from the MIR dumped from the staged copy of /repo's current
tree, (2) decided by z3 and cvc5 (both must say unsat; disagreement or `(error` is
inconclusive), (3) validated: the encoding is evaluated on concrete inputs (the repo's own
test inputs plus edge cases) and compared with a native run of the real function, and
(4) on `sat` the model's input is replayed natively before a violation is reported."""
import os
import re
import struct
import subprocess
import time

import mirsmt
from mirsmt import F32, Unsupported

BV32 = "(_ BitVec 32)"
MASK24 = "#x00ffffff"

VALIDATION_PHASES = [0.0, 0.1, 0.2, 0.3, 0.4, 0.5, 0.6, 0.7, 0.8, 0.9, -2.0, -0.25, 0.99999994, 2.0000305,
                     1.0, 12345.678, 1.0e10, -7.75, 5.9604645e-08, 3.4028235e38]
VALIDATION_CLAMP = [0.0, 0.001, 0.0005, 20.0, 25.0, -1.0, 0.5, 1.0, 1.5, float("inf"), float("-inf"), float("nan"), 1e-45]


def jobs_for(prop, tier):
    if prop == "C11":
        return ["set_phase"]
    if prop in ("C10", "C17"):
        # C10: reachability of phases; C17: set_phase(any finite f32) cannot leave [0, 2^24), so no
        # later table index or counter addition can go out of range, and no overflow check fires
        return ["set_phase_range"]
    if prop == "C20":
        return ["clamps"]
    return []


def _bits(f):
    return struct.unpack("<I", struct.pack("<f", f))[0]


def _fp(bits):
    return "((_ to_fp 8 24) #x%08x)" % bits


def _find(fns, suffix, contains=None):
    c = [f for n, f in fns.items() if n.endswith(suffix) and (contains is None or contains in f.sig)]
    if len(c) != 1:
        raise Unsupported("expected exactly one MIR body for %s (%s), found %d" % (suffix, contains, len(c)))
    return c[0]


def _set_phase_term(fns, consts, p_term):
    """acc', last', flag' after set_phase(p) on a counter with mask 2^24-1 (as new() sets it)."""
    ex = mirsmt.Exec(fns, consts)
    f = _find(fns, "::set_phase", "PhaseAccumulator")
    st = mirsmt.State()
    st.fields = {1: (BV32, MASK24), 2: (BV32, "acc0"), 3: (BV32, "last0"), 5: ("Bool", "flag0")}
    st.locals = {"_2": (F32, p_term)}
    out = ex.run(f, st)
    global LAST_PANICS
    LAST_PANICS = list(ex.panics)
    return out.fields[2][1], out.fields[3][1], out.fields[5][1], sorted(ex.used)


LAST_PANICS = []


def _clamp_term(fns, consts, which, x_term):
    ex = mirsmt.Exec(fns, consts)
    f = [g for n, g in fns.items() if n.endswith("::from") and g.sig.rstrip(" {").endswith("-> %s" % which)]
    if len(f) != 1:
        raise Unsupported("expected one From<f32> for %s, found %d" % (which, len(f)))
    st = mirsmt.State()
    st.locals = {"_1": (F32, x_term)}
    out = ex.run(f[0], st)
    return out.locals["_0"][1], sorted(ex.used)


HEADER = "(set-logic ALL)\n(set-option :produce-models true)\n"


def _decide(name, label, about, decls, negated_goal, inputs, log_path, functions, timeout_s=300):
    """Both solvers on one query. inputs: list of (smt_name, kind) to read back on sat."""
    script = HEADER + decls + "(assert %s)\n(check-sat)\n" % negated_goal
    if inputs:
        script += "(get-value (%s))\n" % " ".join(n for n, _ in inputs)
    res = {"name": name, "label": label, "about": about, "functions": functions, "solvers": {}, "solver_s": 0.0}
    answers = []
    model = ""
    import concurrent.futures
    with concurrent.futures.ThreadPoolExecutor(max_workers=2) as pool:
        futs = {sv: pool.submit(mirsmt.solve, script, sv, timeout_s) for sv in ("z3", "cvc5")}
        for sv, fut in futs.items():
            ans, out, dt = fut.result()
            res["solvers"][sv] = {"answer": ans, "seconds": round(dt, 2)}
            res["solver_s"] += dt
            answers.append(ans)
            if ans == "sat" and not model:
                model = out
            with open(log_path, "a") as fh:
                fh.write("[mir-smt] %s %s -> %s (%.1fs)\n" % (name, sv, ans, dt))
    # decided when at least one solver proves unsat and none finds a model; a solver that times out
    # is reported, not believed either way; sat vs unsat is a disagreement = inconclusive
    if "sat" in answers and "unsat" in answers:
        res["verdict"] = "inconclusive"
        res["reason"] = "solvers disagree: %s" % answers
    elif "sat" in answers:
        res["verdict"] = "fail"
        res["model"] = model
    elif "unsat" in answers:
        res["verdict"] = "pass"
        if any(a != "unsat" for a in answers):
            res["note"] = "decided by one solver; the other answered %s" % [a for a in answers if a != "unsat"]
    else:
        res["verdict"] = "inconclusive"
        res["reason"] = "solver answers %s" % answers
    res["script"] = script
    return res


def _model_bits(model, name):
    m = re.search(r"\(%s\s+\(fp\s+#b([01])\s+(#b[01]{8}|#x[0-9a-fA-F]{2})\s+(#b[01]{23}|#x[0-9a-fA-F]+)\)" % re.escape(name), model)
    if m:
        e = m.group(2)
        ev = int(e[2:], 2) if e.startswith("#b") else int(e[2:], 16)
        f = m.group(3)
        fv = int(f[2:], 2) if f.startswith("#b") else int(f[2:], 16)
        return (int(m.group(1)) << 31) | (ev << 23) | (fv & 0x7fffff)
    m = re.search(r"\(%s\s+\(_\s+([+-])(zero|oo)\s+8\s+24\)" % re.escape(name), model)
    if m:
        sign = 0x80000000 if m.group(1) == "-" else 0
        return sign | (0x7f800000 if m.group(2) == "oo" else 0)
    if re.search(r"\(%s\s+\(_\s+NaN" % re.escape(name), model):
        return 0x7fc00000
    m = re.search(r"\(%s\s+#x([0-9a-fA-F]{8})\)" % re.escape(name), model)
    if m:
        return int(m.group(1), 16)
    return None


def _native(stage, mod, rust_body, log_path, marker):
    """Append a #[cfg(test)] module with one test to the staged src/<mod>.rs, run it natively
    (plain cargo test on the default toolchain), return the lines it printed after `marker`."""
    src = os.path.join(stage.dir, "src", mod + ".rs")
    tag = "verif_native_%d" % int(time.time() * 1000)
    with open(src, "a") as fh:
        fh.write("\n#[cfg(test)]\nmod %s {\n    extern crate std;\n    use super::*;\n    #[test]\n    fn %s_t() {\n%s\n    }\n}\n" % (tag, tag, rust_body))
    env = dict(os.environ)
    env["CARGO_NET_OFFLINE"] = "true"
    cmd = ["cargo", "test", "--offline", "--lib", "--target-dir", os.path.join(stage.dir, "target-native"),
           "%s_t" % tag, "--", "--nocapture", "--test-threads=1"]
    p = subprocess.run(cmd, cwd=stage.dir, env=env, capture_output=True, text=True, timeout=1200)
    with open(log_path, "a") as fh:
        fh.write("$ " + " ".join(cmd) + "\n" + p.stdout[-3000:] + p.stderr[-3000:] + "\n")
    return [ln.split(marker, 1)[1].strip() for ln in (p.stdout + p.stderr).splitlines() if marker in ln], p.returncode


def _eval(decls, term, sort="bv"):
    """Evaluate a closed term with z3 (translator validation)."""
    script = HEADER + decls + "(define-fun __v () %s %s)\n(check-sat)\n(get-value (__v))\n" % (
        BV32 if sort == "bv" else F32, term)
    ans, out, _ = mirsmt.solve(script, "z3", 120)
    if ans != "sat":
        return None
    return _model_bits(out, "__v")


def run(stage, jobs, log_path):
    results = []
    try:
        mir = mirsmt.dump_mir(stage.dir, log_path)
        fns, consts = mirsmt.parse_mir(mir)
    except Unsupported as e:
        return [{"name": "mir-dump", "label": "mir/dump", "verdict": "inconclusive", "reason": str(e)}]
    for job in jobs:
        try:
            if job == "set_phase":
                results += _job_set_phase(stage, fns, consts, log_path)
            elif job == "set_phase_range":
                results += [r for r in _job_set_phase(stage, fns, consts, log_path, only_range=True)]
            elif job == "clamps":
                results += _job_clamps(stage, fns, consts, log_path)
        except Unsupported as e:
            results.append({"name": "mir-" + job, "label": "mir/" + job, "verdict": "inconclusive",
                            "reason": "MIR construct outside the translator's subset: %s" % e})
    return results


def _job_set_phase(stage, fns, consts, log_path, only_range=False):
    out = []
    decls = "(declare-const p %s)\n(declare-const acc0 %s)\n(declare-const last0 %s)\n(declare-const flag0 Bool)\n" % (F32, BV32, BV32)
    acc, last, flag, used = _set_phase_term(fns, consts, "p")
    panics = list(LAST_PANICS)
    finite = "(not (or (fp.isNaN p) (fp.isInfinite p)))"
    # --- translator validation against the real function --------------------------------
    body = "        for b in [%s] { let p = f32::from_bits(b); let mut pa = PhaseAccumulator::<24, 10>::new(1000.0); pa.tick(); pa.set_phase(p); std::println!(\"MIRVAL {} {} {} {}\", b, pa.accumulator, pa.last_accumulator, pa.rolled_over); }" % ", ".join("%du32" % _bits(v) for v in VALIDATION_PHASES)
    lines, rc = _native(stage, "phase_accumulator", body, log_path, "MIRVAL")
    nat = {}
    for ln in lines:
        a = ln.split()
        nat[int(a[0])] = int(a[1])
    validated = 0
    mismatch = []
    for v in VALIDATION_PHASES:
        b = _bits(v)
        acc_c, _, _, _ = _set_phase_term(fns, consts, _fp(b))
        got = _eval("(declare-const acc0 %s)\n(declare-const last0 %s)\n(declare-const flag0 Bool)\n" % (BV32, BV32), acc_c)
        if b in nat and got == nat[b]:
            validated += 1
        else:
            mismatch.append((v, got, nat.get(b)))
    if mismatch or validated == 0:
        return [{"name": "mir-set_phase-validation", "label": "C11/set_phase/encoding-validated-against-native", "verdict": "inconclusive",
                 "reason": "MIR->SMT encoding disagrees with the native function on %s" % mismatch[:3]}]

    def q(name, label, about, goal, extra_decls=""):
        r = _decide(name, label, about, decls + extra_decls, "(and %s (not %s))" % (finite, goal), [("p", "f32")], log_path, used, timeout_s=150)
        r["native_validations"] = validated
        if r["verdict"] == "fail":
            _confirm_set_phase(stage, r, log_path)
        return r

    f64 = "(_ FloatingPoint 11 53)"
    out.append(q("mir_set_phase_in_range", "C11/set_phase/phase-stays-below-one-cycle",
                 "every finite f32 p: set_phase(p) leaves the counter < 2^24 (mask as set by new()), last = 0, no pending rollover flag, and no compiler-inserted overflow check on its path can fail",
                 "(and (bvult %s #x01000000) (= %s #x00000000) (not %s)%s)" % (
                     acc, last, flag, "".join(" (not %s)" % pc for pc in panics))))
    if only_range:
        out[-1]["label"] = "C10,C17/set_phase-keeps-counter-below-2^24-for-every-finite-phase"
        return out
    # p >= 0: |acc' - frac(p)*2^24| <= 4 counter steps (2^-22 cycle), computed exactly in f64
    frac = "(fp.sub RNE p (fp.roundToIntegral RTZ p))"
    e = "(fp.sub RNE ((_ to_fp_unsigned 11 53) RNE %s) (fp.mul RNE ((_ to_fp 11 53) RNE %s) ((_ to_fp 11 53) RNE 16777216.0)))" % (acc, frac)
    out.append(q("mir_set_phase_fraction", "C11/set_phase/p>=0-is-fractional-part-within-2^-22-cycle",
                 "every finite f32 p >= 0: |counter - (p - trunc(p)) * 2^24| <= 4, evaluated exactly in binary64",
                 "(=> (fp.geq p (_ +zero 8 24)) (and (fp.leq %s ((_ to_fp 11 53) RNE 4.0)) (fp.geq %s ((_ to_fp 11 53) RNE (- 4.0)))))" % (e, e)))
    # negative p: the code multiplies by -1 and then runs the same block as for p >= 0.
    # (a) p * -1 is exactly -p (bit for bit) for every f32;  (b) with q := p * -1 the counter of
    # set_phase(p) is the counter of set_phase(q) -- the two terms are then syntactically equal.
    out.append(q("mir_set_phase_negate_exact", "C11/set_phase/p*-1-is-exactly-minus-p",
                 "every finite f32 p: the f32 product p * -1.0 equals -p bit for bit",
                 "(= (fp.mul RNE p %s) (fp.neg p))" % mirsmt.f32_const("-1")))
    acc_q, _, _, _ = _set_phase_term(fns, consts, "(fp.mul RNE p %s)" % mirsmt.f32_const("-1"))
    out.append(q("mir_set_phase_negative", "C11/set_phase/negative-p-equals-its-mirror",
                 "every finite f32 p < 0: set_phase(p) and set_phase(-p) give the same counter, so a negative p yields a phase in [0,1) that (with the p >= 0 clause) is the fractional part of |p| within 2^-22 cycle, i.e. depends only on p modulo 1",
                 "(=> (fp.lt p (_ +zero 8 24)) (= %s %s))" % (acc, acc_q)))
    return out


def _confirm_set_phase(stage, r, log_path):
    b = _model_bits(r.get("model", ""), "p")
    if b is None:
        r["confirmed"] = False
        return
    body = ("        let p = f32::from_bits(%du32); let mut a = PhaseAccumulator::<24, 10>::new(1000.0); a.set_phase(p);\n"
            "        let mut m = PhaseAccumulator::<24, 10>::new(1000.0); m.set_phase(-p);\n"
            "        let ap = if p < 0.0 { -p } else { p }; let fr = ap - (ap as f64).trunc() as f32;\n"
            "        let mut c = PhaseAccumulator::<24, 10>::new(1000.0); c.set_phase(fr);\n"
            "        let e = a.accumulator as f64 - (fr as f64) * 16777216.0;\n"
            "        let ok = a.accumulator < (1 << 24) && (p >= 0.0 || a.accumulator == m.accumulator) && a.accumulator == c.accumulator && (p < 0.0 || (e <= 4.0 && e >= -4.0));\n"
            "        std::println!(\"MIRCEX {} {} {}\", ok, p, a.accumulator);") % b
    lines, _ = _native(stage, "phase_accumulator", body, log_path, "MIRCEX")
    r["confirmed"] = bool(lines) and lines[0].startswith("false")
    r["counterexample"] = {"p_bits": b, "native": lines[:1]}
    if r["confirmed"]:
        path = os.path.join(os.path.dirname(os.path.dirname(os.path.abspath(__file__))), "replays", "C11")
        os.makedirs(path, exist_ok=True)
        r["file"] = os.path.join(path, r["name"] + ".txt")
        with open(r["file"], "w") as fh:
            fh.write("set_phase(f32::from_bits(%d)) violates %s\nnative: %s\n" % (b, r["label"], lines[:1]))


def _job_clamps(stage, fns, consts, log_path):
    out = []
    decls = "(declare-const x %s)\n" % F32
    for which, lo, hi, mod_label in (("TimePeriod", 0.001, 20.0, "time"), ("SustainLevel", 0.0, 1.0, "sustain")):
        y, used = _clamp_term(fns, consts, which, "x")
        flo, fhi = _fp(_bits(lo)), _fp(_bits(hi))
        # validation
        body = "        for b in [%s] { let v: f32 = %s::from(f32::from_bits(b)).into(); std::println!(\"MIRVAL {} {}\", b, v.to_bits()); }" % (
            ", ".join("%du32" % _bits(v) for v in VALIDATION_CLAMP), which)
        lines, _ = _native(stage, "adsr", body, log_path, "MIRVAL")
        nat = {int(l.split()[0]): int(l.split()[1]) for l in lines}
        validated = 0
        bad = []
        for v in VALIDATION_CLAMP:
            b = _bits(v)
            yc, _ = _clamp_term(fns, consts, which, _fp(b))
            got = _eval("", yc, "fp")
            if b in nat and got is not None and (got == nat[b] or (got & 0x7fffffff == 0 and nat[b] & 0x7fffffff == 0)):
                validated += 1
            else:
                bad.append((v, got, nat.get(b)))
        if bad or not validated:
            out.append({"name": "mir-clamp-validation-" + mod_label, "label": "C20/%s/encoding-validated" % mod_label,
                        "verdict": "inconclusive", "reason": "encoding disagrees with native on %s" % bad[:3]})
            continue
        goal = ("(and (fp.geq {y} {lo}) (fp.leq {y} {hi}) "
                "(=> (and (fp.geq x {lo}) (fp.leq x {hi})) (fp.eq {y} x)) "
                "(=> (fp.lt x {lo}) (fp.eq {y} {lo})) (=> (fp.gt x {hi}) (fp.eq {y} {hi})) "
                "(=> (fp.isNaN x) (or (fp.eq {y} {lo}) (fp.eq {y} {hi}))))").format(y=y, lo=flo, hi=fhi)
        r = _decide("mir_clamp_" + mod_label, "C20/%s/clamp-all-bit-patterns(MIR->SMT)" % mod_label,
                    "all 2^32 f32 bit patterns through the MIR of <%s as From<f32>>::from: in [%g,%g], identity inside, nearer bound outside, a bound for NaN" % (which, lo, hi),
                    decls, "(not %s)" % goal, [("x", "f32")], log_path, used)
        r["native_validations"] = validated
        if r["verdict"] == "fail":
            b = _model_bits(r.get("model", ""), "x")
            if b is not None:
                body = ("        let x = f32::from_bits(%du32); let y: f32 = %s::from(x).into();\n"
                        "        let ok = y >= %r && y <= %r && (!(x >= %r && x <= %r) || y == x) && (!(x < %r) || y == %r) && (!(x > %r) || y == %r);\n"
                        "        std::println!(\"MIRCEX {} {} {}\", ok, x, y);") % (b, which, lo, hi, lo, hi, lo, lo, hi, hi)
                body = body.replace("0.001", "0.001_f32").replace("20.0", "20.0_f32").replace(" 0.0", " 0.0_f32").replace(" 1.0", " 1.0_f32")
                lines, _ = _native(stage, "adsr", body, log_path, "MIRCEX")
                r["confirmed"] = bool(lines) and lines[0].startswith("false")
                if r["confirmed"]:
                    path = os.path.join(os.path.dirname(os.path.dirname(os.path.abspath(__file__))), "replays", "C20")
                    os.makedirs(path, exist_ok=True)
                    r["file"] = os.path.join(path, r["name"] + ".txt")
                    with open(r["file"], "w") as fh:
                        fh.write("%s::from(f32::from_bits(%d)) violates %s\nnative: %s\n" % (which, b, r["label"], lines[:1]))
        out.append(r)
    return out
