"""Oracle tables generated at run time (never read from /repo): values of the
documented reference curves, computed with Python floats (IEEE double) and
appended as Rust consts to the staged harness copy of a module.

lfo:   SIN_MID[i] = sin(2*pi*(i+0.5)/1024)  (cell midpoint),
       SIN_DEV    = max_i max_{p in cell i} |sin(2*pi*p) - SIN_MID[i]|  (rounded up)
adsr:  RC curves of non_rust_utils/lookup_table_gen.py (documented defaults:
       attack target 3.0, 4 time constants), sampled at the cell edges
       x = 4*i/1024, i = 0..1024:
       ATT_REF[i] = (1-exp(-x/3)) / (1-exp(-4/3)),  DEC_REF[i] = (exp(-x)-exp(-4)) / (1-exp(-4))
"""
import math


def _arr(name, vals, ty="f32"):
    body = ",\n".join("    %r" % float(v) for v in vals)
    return "pub(crate) const %s: [%s; %d] = [\n%s,\n];\n" % (name, ty, len(vals), body)


def lfo_text():
    n = 1024
    mid = [math.sin(2 * math.pi * (i + 0.5) / n) for i in range(n)]
    dev = 0.0
    for i in range(n):
        # sin is monotone or has one extremum in a cell: check ends and the extremum
        pts = [i / n, (i + 1) / n]
        for q in (0.25, 0.75):
            if i / n <= q <= (i + 1) / n:
                pts.append(q)
        for p in pts:
            dev = max(dev, abs(math.sin(2 * math.pi * p) - mid[i]))
    dev = dev * (1 + 1e-6) + 1e-7   # outward; also absorbs the f32 rounding of SIN_MID
    return _arr("SIN_MID", mid) + "pub(crate) const SIN_DEV: f32 = %r;\n" % dev


def adsr_ref():
    n = 1024
    att = [(1 - math.exp(-(4.0 * i / n) / 3.0)) / (1 - math.exp(-4.0 / 3.0)) for i in range(n + 1)]
    dec = [(math.exp(-(4.0 * i / n)) - math.exp(-4.0)) / (1 - math.exp(-4.0)) for i in range(n + 1)]
    return att, dec


def adsr_text():
    att, dec = adsr_ref()
    return _arr("ATT_REF", att, "f64") + _arr("DEC_REF", dec, "f64")


def glide_text():
    """Contract of tan on [0, 0.8] (covers pi/4 with margin), 256 segments.
    tan is convex there: the tangent at the left node is a lower bound, the chord an upper bound.
    TAN_X0[i] left node, TAN_T0[i] = tan(node), TAN_SLO[i] = sec^2(node), TAN_SHI[i] = chord slope."""
    n = 256
    xmax = 0.8
    h = xmax / n
    x0 = [i * h for i in range(n)]
    t0 = [math.tan(x) for x in x0]
    slo = [1.0 / math.cos(x) ** 2 for x in x0]
    shi = [(math.tan(x + h) - math.tan(x)) / h for x in x0]
    out = "pub(crate) const TAN_N: usize = %d;\npub(crate) const TAN_XMAX: f32 = %r;\npub(crate) const TAN_INV_H: f32 = %r;\n" % (n, xmax, 1.0 / h)
    return out + _arr("TAN_X0", x0) + _arr("TAN_T0", t0) + _arr("TAN_SLO", slo) + _arr("TAN_SHI", shi)


def text_for(mod):
    if mod == "glide_processor":
        return glide_text()
    if mod == "lfo":
        return lfo_text()
    if mod == "adsr":
        return adsr_text()
    return ""
