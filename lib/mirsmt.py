"""Engine M: symbolic execution of the nightly compiler's MIR (text form) of
loop-free functions into SMT-LIB2 (QF_FPBV), decided by z3 and cross-checked by cvc5.

Exists because CBMC's f32 `%` (frem) is wrong (2.0000305 % 1.0 evaluates outside
[0,1) under Kani 0.68; the counterexample passes natively), so nothing on a path
through float `%` -- PhaseAccumulator::set_phase -- is decided with Kani.  Also used as
an independent second opinion on the C20 clamps.

Supported MIR subset (anything else raises Unsupported -> the query is INCONCLUSIVE):
  locals _N of type f32/u32/bool/()/one-field f32 newtypes; `(*_1).K` field places of the
  &mut self argument (struct fields are symbolic inputs); operands copy/move/const;
  BinOps Lt Le Gt Ge Eq Ne Add Sub Mul Div Rem(const 1f32 only) on f32, BitAnd/Shr/Shl/Add/Sub
  on u32/i32, checked Add/Sub with their rustc-inserted assert (recorded as an obligation), const
  generics TOTAL_NUM_BITS/NUM_INDEX_BITS instantiated as <24, 10>; casts IntToFloat (u32->f32, RNE) and
  FloatToInt (f32->u32, saturating, NaN->0); calls f32::max / f32::min (IEEE maxNum/minNum,
  Rust's NaN rule) and calls to other functions of the same dump (inlined); switchInt on
  bool; goto; return.  Control flow must be a DAG (no loops).
Float `%` is encoded as C fmod(x, 1.0) = x - trunc(x), which is exact in binary
floating point (the difference is representable), so fp.sub cannot round.
"""
import os
import re
import subprocess
import time


class Unsupported(Exception):
    pass


F32 = "(_ FloatingPoint 8 24)"
RNE = "RNE"


def f32_const(txt):
    """MIR float literal (e.g. 0.00100000005f32, -1f32, 20f32) -> SMT term, rounded exactly like rustc
    (decimal -> nearest f32) by going through Python's float and struct."""
    import struct
    v = float(txt)
    bits = struct.unpack("<I", struct.pack("<f", v))[0]
    return "((_ to_fp 8 24) #x%08x)" % bits


class Fn:
    def __init__(self, name, sig, body):
        self.name = name
        self.sig = sig
        self.body = body
        self.blocks = {}
        self.local_ty = {}
        self.args = []
        self._parse()

    def _parse(self):
        m = re.match(r"fn .*?\((.*)\) -> (.*?) \{", self.sig)
        if m:
            for a in [x.strip() for x in m.group(1).split(", _")]:
                if not a:
                    continue
                a = a if a.startswith("_") else "_" + a
                nm, ty = a.split(": ", 1)
                self.args.append(nm)
                self.local_ty[nm] = ty
            self.local_ty["_0"] = m.group(2)
        cur = None
        for ln in self.body:
            s = ln.strip()
            m = re.match(r"let (?:mut )?(_\d+): (.*);", s)
            if m:
                self.local_ty[m.group(1)] = m.group(2)
                continue
            m = re.match(r"(bb\d+)(?: \(cleanup\))?: \{", s)
            if m:
                cur = m.group(1)
                self.blocks[cur] = []
                continue
            if s == "}":
                cur = None
                continue
            if cur is not None and s and not s.startswith(("debug ", "scope ", "//")):
                self.blocks[cur].append(s)


def parse_mir(text):
    fns = {}
    consts = {}
    lines = text.splitlines()
    i = 0
    while i < len(lines):
        ln = lines[i]
        m = re.match(r"const ([\w:]+): f32 = const ([-\w.+]+?)f32;", ln)
        if m:
            consts[m.group(1).split("::")[-1]] = m.group(2)
        if ln.startswith("fn "):
            body = []
            j = i + 1
            depth = 1
            while j < len(lines) and depth > 0:
                depth += lines[j].count("{") - lines[j].count("}")
                body.append(lines[j])
                j += 1
            f = Fn(ln[3:ln.index("(")], ln, body)
            fns[f.name] = f
            i = j
            continue
        i += 1
    return fns, consts


class State:
    def __init__(self):
        self.locals = {}   # name -> (sort, term)
        self.fields = {}   # index -> (sort, term)   fields of *_1


class Exec:
    """Symbolic execution of one function call; returns merged post-state."""

    def __init__(self, fns, consts):
        self.fns = fns
        self.consts = consts
        self.fresh = 0
        self.used = set()
        self.panics = []  # path conditions under which a rustc-inserted assert (overflow check) fails
        # const generics of PhaseAccumulator as both owners (Adsr, Lfo) instantiate it: <24, 10>
        self.generics = {"TOTAL_NUM_BITS": 24, "NUM_INDEX_BITS": 10}

    def find(self, callee):
        # callee text like `PhaseAccumulator::<TOTAL_NUM_BITS, NUM_INDEX_BITS>::reset`
        # or `<f32 as Into<TimePeriod>>::into`
        parts = re.sub(r"::<[^>]*>", "", callee).split("::")
        base = parts[-1]
        cands = [f for n, f in self.fns.items() if n.split("::")[-1] == base and "closure" not in n]
        if len(cands) > 1 and len(parts) >= 2:
            ty = parts[-2]
            narrowed = [f for f in cands if re.search(r"_1: &(mut )?%s\b" % re.escape(ty), f.sig)]
            if narrowed:
                cands = narrowed
        return cands

    def operand(self, st, op, want=None):
        op = op.strip()
        m = re.match(r"(copy|move) (.*)$", op)
        if m:
            return self.read_place(st, m.group(2))
        m = re.match(r"const (.*)$", op)
        if m:
            c = m.group(1)
            if c in ("true", "false"):
                return ("Bool", c)
            mm = re.match(r"(-?[\d.eE+-]+|-?inf|NaN)f32$", c)
            if mm:
                return (F32, f32_const(mm.group(1)))
            mm = re.match(r"(-?\d+)_(u32|i32)$", c)
            if mm:
                return ("(_ BitVec 32)", "(_ bv%d 32)" % (int(mm.group(1)) & 0xffffffff))
            if c in self.generics:
                # const generic parameter, instantiated as the crate's owners instantiate it
                return ("(_ BitVec 32)", "(_ bv%d 32)" % self.generics[c])
            mm = re.match(r"[\w:]*?(\w+)$", c)
            if mm and mm.group(1) in self.consts:
                return (F32, f32_const(self.consts[mm.group(1)]))
            raise Unsupported("constant %s" % c)
        raise Unsupported("operand %s" % op)

    def read_place(self, st, pl):
        pl = pl.strip()
        m = re.match(r"\(\(\*_1\)\.(\d+): (\w+)\)$", pl)
        if m:
            k = int(m.group(1))
            if k not in st.fields:
                raise Unsupported("field %d not provided" % k)
            return st.fields[k]
        m = re.match(r"\((_\d+)\.(\d+): (\w+)\)$", pl)
        if m and m.group(1) in st.locals and st.locals[m.group(1)][0] == "Tuple":
            return st.locals[m.group(1)][1][int(m.group(2))]
        m = re.match(r"\((_\d+)\.0: f32\)$", pl)
        if m:
            return st.locals[m.group(1)]
        if re.match(r"_\d+$", pl):
            if pl not in st.locals:
                raise Unsupported("read of unassigned local %s" % pl)
            return st.locals[pl]
        raise Unsupported("place %s" % pl)

    def write_place(self, st, pl, val):
        pl = pl.strip()
        m = re.match(r"\(\(\*_1\)\.(\d+): (\w+)\)$", pl)
        if m:
            st.fields[int(m.group(1))] = val
            return
        if re.match(r"_\d+$", pl):
            st.locals[pl] = val
            return
        raise Unsupported("assignment to %s" % pl)

    def rvalue(self, st, rv, fn):
        rv = rv.strip()
        m = re.match(r"(\w+)\((.*), (.*)\)$", rv)
        if m and m.group(1) in ("Lt", "Le", "Gt", "Ge", "Eq", "Ne", "Add", "Sub", "Mul", "Div", "Rem",
                                "BitAnd", "Shr", "Shl", "AddWithOverflow", "SubWithOverflow"):
            op, a, b = m.group(1), self.operand(st, m.group(2)), self.operand(st, m.group(3))
            if a[0] == F32:
                if op in ("Lt", "Le", "Gt", "Ge"):
                    return ("Bool", "(fp.%s %s %s)" % ({"Lt": "lt", "Le": "leq", "Gt": "gt", "Ge": "geq"}[op], a[1], b[1]))
                if op == "Eq":
                    return ("Bool", "(fp.eq %s %s)" % (a[1], b[1]))
                if op == "Ne":
                    return ("Bool", "(not (fp.eq %s %s))" % (a[1], b[1]))
                if op in ("Add", "Sub", "Mul", "Div"):
                    return (F32, "(fp.%s %s %s %s)" % (op.lower(), RNE, a[1], b[1]))
                if op == "Rem":
                    if b[1] != f32_const("1"):
                        raise Unsupported("float %% with a divisor other than the constant 1.0")
                    # C fmod(x, 1.0): x - trunc(x), exact; NaN/inf -> NaN; result keeps the sign of x
                    x = a[1]
                    r = "(fp.sub RNE %s (fp.roundToIntegral RTZ %s))" % (x, x)
                    # fmod(+-0 or exact integer) = +-0 with the sign of x
                    r = "(ite (fp.isZero %s) (ite (fp.isNegative %s) (_ -zero 8 24) (_ +zero 8 24)) %s)" % (r, x, r)
                    r = "(ite (or (fp.isInfinite %s) (fp.isNaN %s)) (_ NaN 8 24) %s)" % (x, x, r)
                    return (F32, r)
            else:
                if op in ("AddWithOverflow", "SubWithOverflow"):
                    # (result, overflowed) as rustc's checked arithmetic produces it (u32)
                    if op == "AddWithOverflow":
                        r = "(bvadd %s %s)" % (a[1], b[1])
                        ov = "(bvult %s %s)" % (r, a[1])
                    else:
                        r = "(bvsub %s %s)" % (a[1], b[1])
                        ov = "(bvult %s %s)" % (a[1], b[1])
                    return ("Tuple", [(a[0], r), ("Bool", ov)])
                bv = {"Add": "bvadd", "Sub": "bvsub", "BitAnd": "bvand", "Shr": "bvlshr", "Shl": "bvshl", "Mul": "bvmul"}
                if op in bv:
                    return (a[0], "(%s %s %s)" % (bv[op], a[1], b[1]))
                cmp_ = {"Lt": "bvult", "Le": "bvule", "Gt": "bvugt", "Ge": "bvuge"}
                if op in cmp_:
                    return ("Bool", "(%s %s %s)" % (cmp_[op], a[1], b[1]))
                if op == "Eq":
                    return ("Bool", "(= %s %s)" % (a[1], b[1]))
            raise Unsupported("binop %s on %s" % (op, a[0]))
        m = re.match(r"(.*) as f32 \(IntToFloat\)$", rv)
        if m:
            a = self.operand(st, m.group(1))
            src = re.match(r"(?:copy|move) (_\d+)$", m.group(1).strip())
            signed = bool(src) and fn.local_ty.get(src.group(1), "").startswith("i")
            return (F32, "((_ %s 8 24) RNE %s)" % ("to_fp" if signed else "to_fp_unsigned", a[1]))
        m = re.match(r"(.*) as u32 \(FloatToInt\)$", rv)
        if m:
            a = self.operand(st, m.group(1))
            x = a[1]
            # Rust `as`: saturating, NaN -> 0
            maxf = "((_ to_fp_unsigned 8 24) RTZ #xffffffff)"  # 4294967040 < 2^32
            t = "(ite (fp.isNaN %s) #x00000000 (ite (fp.lt %s (_ +zero 8 24)) #x00000000 " \
                "(ite (fp.geq %s ((_ to_fp 8 24) RNE 4294967296.0)) #xffffffff ((_ fp.to_ubv 32) RTZ %s))))" % (x, x, x, x)
            return ("(_ BitVec 32)", t)
        m = re.match(r"(\w+)\((copy|move) (_\d+)\)$", rv)
        if m and m.group(1) in ("TimePeriod", "SustainLevel"):
            return st.locals[m.group(3)]  # one-field newtype: same value
        m = re.match(r"(copy|move|const) ", rv)
        if m:
            return self.operand(st, rv)
        raise Unsupported("rvalue %s" % rv)

    def call(self, st, callee, args, fn):
        base = re.sub(r"::<[^>]*>", "", callee)
        if base.endswith("f32::max") or base.endswith("f32::min") or re.search(r"impl f32>::(max|min)$", callee):
            a, b = args
            which = "max" if callee.endswith("max") else "min"
            # Rust f32::max/min: if one argument is NaN the other is returned
            if which == "max":
                t = "(ite (fp.isNaN %s) %s (ite (fp.isNaN %s) %s (ite (fp.gt %s %s) %s %s)))" % (a[1], b[1], b[1], a[1], a[1], b[1], a[1], b[1])
            else:
                t = "(ite (fp.isNaN %s) %s (ite (fp.isNaN %s) %s (ite (fp.lt %s %s) %s %s)))" % (a[1], b[1], b[1], a[1], a[1], b[1], a[1], b[1])
            return (F32, t)
        cands = self.find(callee)
        if len(cands) != 1:
            raise Unsupported("call to %s (%d candidates)" % (callee, len(cands)))
        f = cands[0]
        self.used.add(f.name)
        sub = State()
        sub.fields = st.fields  # &mut self is passed straight through
        for nm, v in zip(f.args, args):
            if v is not None:
                sub.locals[nm] = v
        ret = self.run(f, sub)
        st.fields = ret.fields
        return ret.locals.get("_0", ("Unit", "unit"))

    def run(self, fn, st0):
        """Execute fn from bb0; returns the merged final State."""
        self.used.add(fn.name)
        finals = []  # (cond, State)

        def clone(s):
            n = State()
            n.locals = dict(s.locals)
            n.fields = dict(s.fields)
            return n

        def step(bb, st, cond, depth):
            if depth > 64:
                raise Unsupported("control flow too deep (loop?)")
            for s in fn.blocks[bb]:
                s = s.rstrip(";")
                if s.startswith(("StorageLive", "StorageDead", "nop", "FakeRead", "PlaceMention")):
                    continue
                if s == "return":
                    finals.append((cond, st))
                    return
                m = re.match(r"goto -> (bb\d+)$", s)
                if m:
                    return step(m.group(1), st, cond, depth + 1)
                m = re.match(r"switchInt\((.*)\) -> \[0: (bb\d+), otherwise: (bb\d+)\]$", s)
                if m:
                    c = self.operand(st, m.group(1))
                    if c[0] != "Bool":
                        raise Unsupported("switchInt on %s" % c[0])
                    step(m.group(2), clone(st), "(and %s (not %s))" % (cond, c[1]), depth + 1)
                    step(m.group(3), clone(st), "(and %s %s)" % (cond, c[1]), depth + 1)
                    return
                m = re.match(r"assert\((!?)(.*?), \".*\) -> \[success: (bb\d+), unwind .*\]$", s)
                if m:
                    c = self.operand(st, m.group(2))
                    ok = "(not %s)" % c[1] if m.group(1) == "!" else c[1]
                    # the failing branch is a panic: recorded as an obligation, execution continues on success
                    self.panics.append("(and %s (not %s))" % (cond, ok))
                    return step(m.group(3), st, "(and %s %s)" % (cond, ok), depth + 1)
                m = re.match(r"(.*?) = (.*?)\((.*)\) -> \[return: (bb\d+), unwind .*\]$", s)
                if m and not re.match(r"^(Lt|Le|Gt|Ge|Eq|Ne|Add|Sub|Mul|Div|Rem|BitAnd|Shr)$", m.group(2).strip()):
                    dst, callee, argtxt, nxt = m.group(1), m.group(2).strip(), m.group(3), m.group(4)
                    args = []
                    for a in [x for x in re.split(r", (?=(?:copy|move|const) )", argtxt) if x.strip()]:
                        a = a.strip()
                        if a in ("copy _1", "move _1") and fn.local_ty.get("_1", "").startswith("&"):
                            args.append(None)  # the self reference
                        else:
                            args.append(self.operand(st, a))
                    v = self.call(st, callee, args, fn)
                    if v[0] != "Unit":
                        self.write_place(st, dst, v)
                    return step(nxt, st, cond, depth + 1)
                m = re.match(r"(.*?) = (.*)$", s)
                if m:
                    self.write_place(st, m.group(1), self.rvalue(st, m.group(2), fn))
                    continue
                raise Unsupported("statement %s" % s)
            raise Unsupported("block %s falls off the end" % bb)

        step("bb0", clone(st0), "true", 0)
        if not finals:
            raise Unsupported("no return reached")
        out = State()
        keys_l = set()
        keys_f = set()
        for _, s in finals:
            keys_l |= set(s.locals)
            keys_f |= set(s.fields)

        def merge(getter):
            acc = None
            for cond, s in reversed(finals):
                v = getter(s)
                if v is None:
                    continue
                acc = v if acc is None else (v[0], "(ite %s %s %s)" % (cond, v[1], acc[1]))
            return acc

        for k in keys_f:
            v = merge(lambda s: s.fields.get(k))
            if v:
                out.fields[k] = v
        v = merge(lambda s: s.locals.get("_0"))
        if v:
            out.locals["_0"] = v
        return out


def dump_mir(stage_dir, log_path=None):
    env = dict(os.environ)
    env["CARGO_NET_OFFLINE"] = "true"
    lib = os.path.join(stage_dir, "src", "lib.rs")
    os.utime(lib, None)
    cmd = ["cargo", "+nightly", "rustc", "--offline", "--lib", "--target-dir", os.path.join(stage_dir, "target-mir"),
           "--", "-Zunpretty=mir", "-C", "debug-assertions=off", "-C", "overflow-checks=on"]
    p = subprocess.run(cmd, cwd=stage_dir, env=env, capture_output=True, text=True, timeout=900)
    if log_path:
        with open(log_path, "a") as fh:
            fh.write("$ " + " ".join(cmd) + "\n" + p.stderr[-3000:] + "\n")
    if p.returncode != 0 or "fn " not in p.stdout:
        raise Unsupported("MIR dump failed: %s" % p.stderr[-800:])
    return p.stdout


def solve(script, solver, timeout_s=300):
    """solver in {'z3','cvc5'}; returns (answer, model_text, seconds)."""
    if solver == "z3":
        cmd = ["z3", "-in", "-T:%d" % timeout_s]
    else:
        cmd = ["cvc5", "--lang", "smt2", "--produce-models", "--tlimit=%d" % (timeout_s * 1000)]
    t0 = time.time()
    try:
        p = subprocess.run(cmd, input=script, capture_output=True, text=True, timeout=timeout_s + 30)
    except subprocess.TimeoutExpired:
        return "timeout", "", time.time() - t0
    out = p.stdout + p.stderr
    dt = time.time() - t0
    first = out.strip().splitlines()[0].strip() if out.strip() else "none"
    # an `(error` line BEFORE the verdict means an assertion may have been dropped: inconclusive.
    # (`get-value` after `unsat` also prints an error; that one comes after the verdict and is harmless.)
    if first.startswith("(error") or first not in ("sat", "unsat", "unknown", "timeout"):
        return "error", out, dt
    return first, out, dt
