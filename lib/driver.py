"""Check driver: stage -> solve -> replay counterexamples -> known findings ->
evidence -> exit code.  See /verif/check for the contract."""
import json
import os
import re
import subprocess
import sys
import time

import kanirun
import meta
from stage import Stage, VERIF, REPO

KNOWN = os.path.join(VERIF, "known_findings.json")
EVID = os.environ.get("VERIF_EVIDENCE_DIR") or os.path.join(VERIF, "evidence")
REPLAYS = os.path.join(VERIF, "replays")
LOGS = os.path.join(VERIF, "logs")


def _props():
    out = {}
    with open(os.path.join(VERIF, "properties.jsonl")) as fh:
        for ln in fh:
            ln = ln.strip()
            if ln:
                p = json.loads(ln)
                out[p["id"]] = p
    return out


def _known():
    if not os.path.exists(KNOWN):
        return []
    with open(KNOWN) as fh:
        return json.load(fh).get("findings", [])


def _git_head(path):
    try:
        return subprocess.run(["git", "-C", path, "rev-parse", "--short", "HEAD"],
                              capture_output=True, text=True).stdout.strip()
    except Exception:
        return "?"


def _repo_dirty():
    try:
        return bool(subprocess.run(["git", "-C", REPO, "status", "--porcelain", "--", "src", "Cargo.toml"],
                                   capture_output=True, text=True).stdout.strip())
    except Exception:
        return False


def _playback_native(stage_dir, name_filter, log_path):
    """Run the generated concrete-playback tests natively (dev profile, which is
    what Kani models).  `cargo kani playback` has no --release mode in 0.68.
    Returns per-test outcome: {test: {"failed": bool, "message": str}}."""
    cmd = ["cargo", "kani", "playback", "-Z", "concrete-playback", "--lib", "--",
           name_filter, "--nocapture", "--test-threads=1"]
    env = dict(os.environ)
    env.update(kanirun.KANI_ENV)
    p = subprocess.run(cmd, cwd=stage_dir, env=env, capture_output=True, text=True, timeout=1800)
    out = p.stdout + p.stderr
    with open(log_path, "a") as fh:
        fh.write("$ " + " ".join(cmd) + "\n" + out + "\n")
    tests = {}
    for m in re.finditer(r"^test (\S+) \.\.\. (ok|FAILED)", out, re.M):
        tests[m.group(1).split("::")[-1]] = {"failed": m.group(2) == "FAILED", "message": ""}
    # panic text is on stderr: thread '<test path>' (tid) panicked at <loc>:\n<message>
    for m in re.finditer(r"thread '([^']+)'[^\n]*panicked at ([^\n]*)\n([^\n]*)", out):
        nm = m.group(1).split("::")[-1]
        if nm in tests:
            tests[nm]["message"] = (m.group(3).strip() + " @ " + m.group(2).strip())[:600]
    return {"built": bool(re.search(r"running \d+ test", out)), "tests": tests,
            "tail": "\n".join(out.splitlines()[-15:])}


def _std_paths(ttext):
    """The crate is no_std and some modules import heapless::Vec: spell std's paths out."""
    return ttext.replace("Vec<Vec<u8>>", "std::vec::Vec<std::vec::Vec<u8>>").replace("vec![", "std::vec![")


def _replay_failure(stage, h, res, log_path, jobs, prop=None):
    """Concrete playback of a failing harness and native re-run.
    Returns dict(confirmed, file, detail)."""
    detail = {"harness": h.name}
    try:
        pr = kanirun.run_group(stage.dir, [h], jobs=1, timeout_s=max(h.timeout, 300) * 2, stub=h.stub,
                               cbmc_args=h.cbmc, solver=h.solver, log_path=log_path,
                               playback="print", tag="pb_" + h.name, unwindset=h.unwindset)
    except kanirun.BuildError as e:
        detail["error"] = "playback run failed: %s" % str(e)[:300]
        return {"confirmed": False, "file": None, "detail": detail}
    labels = [f["label"] for f in res["failed"]]
    gen = kanirun.extract_playback_tests(pr["raw_out"], h.name, labels)
    if not gen:
        detail["error"] = "Kani produced no concrete playback test"
        return {"confirmed": False, "file": None, "detail": detail}
    # print mode: add the tests to the end of the staged harness copy ourselves
    # (inplace would put them inside macro bodies of slice families)
    with open(stage.staged_harness(h.module), "a") as fh:
        for tname, ttext in gen:
            fh.write("\n" + _std_paths(ttext) + "\n")
    nat = _playback_native(stage.dir, "kani_concrete_playback_%s_" % h.name, log_path)
    hit = None
    for tname, ttext in gen:
        t = nat["tests"].get(tname)
        # the native run stops at its FIRST failing obligation, which may be another one of the same
        # harness than the one CBMC lists (e.g. where a stub's bookkeeping is not active natively):
        # any labelled property obligation (Cxx/...) or the same built-in check counts as reproduction
        if t and t["failed"] and (any(l and l in t["message"] for l in labels)
                                  or re.search(r"\bC\d\d/[\w<>=.,:*^+\-\[\]()/]+", t["message"])):
            hit = (tname, ttext, t["message"])
            break
    detail.update({"generated_tests": len(gen), "native_built": nat["built"],
                   "native_failures": sorted(k for k, v in nat["tests"].items() if v["failed"]),
                   "failed_obligations": labels})
    if not hit:
        detail["native_tail"] = nat["tail"][-600:]
        return {"confirmed": False, "file": None, "detail": detail}
    tname, ttext, msg = hit
    detail["test"] = tname
    detail["native_panic"] = msg[-300:]
    pdir = prop or h.props[0]
    os.makedirs(os.path.join(REPLAYS, pdir), exist_ok=True)
    path = os.path.join(REPLAYS, pdir, h.name + ".rs")
    with open(path, "w") as fh:
        fh.write("// replay for harness %s (module %s): concrete values found by CBMC, re-run natively\n" % (h.name, h.module))
        fh.write("// failed obligations: %s\n" % "; ".join(labels))
        fh.write("// native (dev profile) panic: %s\n" % msg[-300:].replace("\n", " "))
        fh.write("// re-run: ./check %s --replay %s\n" % (pdir, path))
        fh.write("// @module %s\n// @test %s\n" % (h.module, tname))
        fh.write(_std_paths(ttext) + "\n")
    return {"confirmed": True, "file": path, "detail": detail}


def replay(prop, path, keep=False):
    """Re-run a stored replay file natively against /repo's current tree.
    exit 1 if the violation reproduces, 0 if the test passes, 2 on build trouble."""
    with open(path) as fh:
        txt = fh.read()
    mod = re.search(r"// @module (\w+)", txt).group(1)
    tname = re.search(r"// @test (\w+)", txt).group(1)
    body = txt[txt.index("#[test]"):]
    os.makedirs(LOGS, exist_ok=True)
    log_path = os.path.join(LOGS, "%s.replay.log" % prop)
    open(log_path, "w").close()
    st = Stage(keep=keep, generated={mod: body})
    try:
        nat = _playback_native(st.dir, tname, log_path)
    finally:
        st.cleanup()
    if not nat["built"] or tname not in nat["tests"]:
        print("REPLAY-BUILD-ERROR property=%s (see %s)" % (prop, log_path))
        return 2
    if nat["tests"][tname]["failed"]:
        print("replay reproduces: %s" % nat["tests"][tname]["message"][-300:])
        print("VIOLATION property=%s replay=%s" % (prop, path))
        return 1
    print("replay passes on the current tree")
    return 0


def _install_signal_cleanup(stage_holder):
    import signal

    def handler(signum, frame):
        kanirun.kill_children()
        for st in stage_holder:
            st.cleanup()
        print("INCONCLUSIVE check terminated by signal %d" % signum)
        os._exit(2)
    signal.signal(signal.SIGTERM, handler)
    signal.signal(signal.SIGINT, handler)


def run(prop, tier, seed, keep=False, only=None, jobs=16):
    t0 = time.time()
    props = _props()
    if prop not in props:
        print("unknown property %s" % prop)
        return 2
    os.makedirs(EVID, exist_ok=True)
    os.makedirs(LOGS, exist_ok=True)
    log_path = os.path.join(LOGS, "%s.%s.log" % (prop, tier))
    open(log_path, "w").close()
    hs, generated = meta.load(tier, seed, only_prop=prop)
    if only:
        hs = [h for h in hs if only in h.name]
    import mirjobs
    mj = mirjobs.jobs_for(prop, tier) if not only else []
    if not hs and not mj:
        print("no checks registered for %s" % prop)
        return 2
    stage = Stage(keep=keep, generated=generated)
    _install_signal_cleanup([stage])
    results = {}
    groups_info = []
    replays = []
    violations = []
    known_hits = []
    inconclusive = []
    tools = {}
    mir_results = []
    try:
        groups = {}
        for h in hs:
            groups.setdefault(h.group_key(), []).append(h)
        try:
            # groups (different Kani flags) and the SMT engine run concurrently, each cargo-kani
            # invocation with its own target dir; cores are shared (-j per group)
            import concurrent.futures
            glist = sorted(groups.items(), key=lambda kv: str(kv[0]))
            per = max(2, jobs // max(1, len(glist))) if len(glist) > 1 else jobs

            def _one(idx_key_grp):
                idx, (key, grp) = idx_key_grp
                to = max(h.timeout for h in grp)
                return kanirun.run_group(stage.dir, grp, jobs=max(per, min(jobs, len(grp))) if len(glist) == 1 else max(per, 4),
                                         timeout_s=to, stub=key[0], cbmc_args=key[1], solver=key[2],
                                         log_path=log_path + ".g%d" % idx, tag="g%d" % idx, unwindset=key[3],
                                         target_dir=os.path.join(stage.dir, "target_g%d" % idx))

            with concurrent.futures.ThreadPoolExecutor(max_workers=max(1, len(glist)) + 1) as pool:
                mfut = pool.submit(mirjobs.run, stage, mj, log_path + ".mir") if mj else None
                futs = [pool.submit(_one, x) for x in enumerate(glist)]
                errs = []
                for (idx, (key, grp)), fut in zip(enumerate(glist), futs):
                    try:
                        r = fut.result()
                    except kanirun.BuildError as e:
                        errs.append(e)
                        continue
                    results.update(r["results"])
                    tools = r["tools"] or tools
                    groups_info.append({"cmd": r["cmd"], "wall_s": round(r["wall_s"], 1),
                                        "peak_rss_mb": r["peak_rss_mb"], "killed_oom": r["killed_oom"],
                                        "harnesses": len(grp)})
                if mfut is not None:
                    mir_results = mfut.result()
                # one log file
                for idx in range(len(glist)):
                    gp = log_path + ".g%d" % idx
                    if os.path.exists(gp):
                        with open(gp) as fi, open(log_path, "a") as fo:
                            fo.write(fi.read())
                        os.remove(gp)
                if os.path.exists(log_path + ".mir"):
                    with open(log_path + ".mir") as fi, open(log_path, "a") as fo:
                        fo.write(fi.read())
                    os.remove(log_path + ".mir")
                if errs:
                    raise errs[0]
        except kanirun.BuildError as e:
            print("HARNESS-BUILD-ERROR property=%s: the harness no longer compiles against /repo's tree" % prop)
            print(str(e)[:3000])
            _write_evidence(prop, tier, seed, hs, results, groups_info, [], [], [],
                            ["build error: harness does not compile against this tree"], tools,
                            time.time() - t0, mir_results, only)
            return 2
        known = [k for k in _known() if k.get("property") == prop and k.get("status") == "open"]
        hmap = {h.name: h for h in hs}
        replayed_sig = {}
        for name, res in sorted(results.items()):
            h = hmap[name]
            if res["verdict"] == "pass":
                continue
            if res["verdict"] == "inconclusive":
                if h.optional:
                    print("NOT-FINISHED (optional, not counted) %s: %s" % (name, res["reason"]))
                else:
                    inconclusive.append("%s: %s" % (name, res["reason"]))
                continue
            labels = [f["label"] for f in res["failed"]]
            sig = (h.family or h.name, tuple(sorted(labels)))
            prev = replayed_sig.get(sig, [])
            if len(prev) >= 2 and any(rp["confirmed"] for rp in prev):
                # same obligation already replayed twice for this family: do not spend more time
                first = [rp for rp in prev if rp["confirmed"]][0]
                rp = {"confirmed": True, "file": first["file"],
                      "detail": {"harness": name, "not_replayed": "same failed obligations as %s" % first["detail"]["harness"]}}
            else:
                # fail: replay natively before believing it
                rp = _replay_failure(stage, h, res, log_path, jobs, prop)
                replayed_sig.setdefault(sig, []).append(rp)
                replays.append(rp)
            if not rp["confirmed"]:
                inconclusive.append("%s: counterexample did not reproduce natively (%s)" % (
                    name, json.dumps(rp["detail"])[:400]))
                continue
            unlisted = [l for l in labels if not any(_kmatch(k, h, l) for k in known)]
            for l in labels:
                for k in known:
                    if _kmatch(k, h, l):
                        known_hits.append((k, name, l, rp["file"]))
            if unlisted:
                violations.append((name, unlisted, rp["file"]))
        for m in mir_results:
            if m["verdict"] == "fail":
                if m.get("confirmed"):
                    violations.append((m["name"], [m["label"]], m.get("file")))
                else:
                    inconclusive.append("%s: SMT counterexample did not reproduce natively" % m["name"])
            elif m["verdict"] == "inconclusive":
                inconclusive.append("%s: %s" % (m["name"], m.get("reason", "")))
    finally:
        stage.cleanup()

    wall = time.time() - t0
    seen = set()
    for k, name, l, f in known_hits:
        key = (k.get("label"), k.get("what"))
        if key in seen:
            continue
        seen.add(key)
        print("KNOWN-FINDING: property=%s %s [harness %s, obligation %s, replay %s]" % (
            prop, k.get("what", ""), name, l, f))
    for name, labels, f in violations:
        print("failed obligations in %s: %s" % (name, "; ".join(labels)))
        print("VIOLATION property=%s replay=%s" % (prop, f))
    for s in inconclusive:
        print("INCONCLUSIVE property=%s %s" % (prop, s))
    n_pass = sum(1 for r in results.values() if r["verdict"] == "pass") + \
        sum(1 for m in mir_results if m["verdict"] == "pass")
    print("%s tier=%s seed=%d: %d harnesses/queries, %d passed, %d violation(s), %d known, %d inconclusive, %.1fs" % (
        prop, tier, seed, len(results) + len(mir_results), n_pass, len(violations), len(seen),
        len(inconclusive), wall))
    if not only:
        _write_evidence(prop, tier, seed, hs, results, groups_info, replays, violations,
                        sorted(seen, key=str), inconclusive, tools, wall, mir_results, only)
    if violations:
        return 1
    if inconclusive:
        return 2
    return 0


def _kmatch(k, h, label):
    if k.get("label") and k["label"] != label:
        return False
    if k.get("harness") and not h.name.startswith(k["harness"]):
        return False
    return True


def _write_evidence(prop, tier, seed, hs, results, groups_info, replays, violations, known_seen,
                    inconclusive, tools, wall, mir_results, only):
    hmap = {h.name: h for h in hs}
    obligations = 0
    discharged = 0
    labels = set()
    funcs = set()
    vccs = 0
    solver_s = 0.0
    symex_s = 0.0
    per = []
    for name, r in sorted(results.items()):
        obligations += r["n_checks"] + r["n_cover"]
        discharged += r["n_ok"] + r["n_cover_ok"]
        for l in r["labels"]:
            labels.add(l)
        for f in r["functions"]:
            funcs.add(f)
        vccs += r["vccs"] or 0
        solver_s += r["solver_s"] or 0.0
        symex_s += r["symex_s"] or 0.0
        h = hmap[name]
        per.append({"harness": name, "module": h.module, "verdict": r["verdict"], "reason": r["reason"],
                    "about": h.about, "checks": r["n_checks"], "checks_ok": r["n_ok"],
                    "vacuity_witnesses": r["n_cover"], "witnesses_satisfied": r["n_cover_ok"],
                    "vccs": r["vccs"], "solver_s": r["solver_s"], "wall_s": r["wall_s"],
                    "failed": [f["label"] for f in r["failed"]],
                    "slice": h.slice, "family": h.family})
    for m in mir_results:
        obligations += 1
        discharged += 1 if m["verdict"] == "pass" else 0
        labels.add(m["label"])
        solver_s += m.get("solver_s", 0.0)
        for f in m.get("functions", []):
            funcs.add(f)
        per.append({"harness": m["name"], "module": "mir-smt", "verdict": m["verdict"],
                    "reason": m.get("reason", ""), "about": m.get("about", ""), "checks": 1,
                    "checks_ok": 1 if m["verdict"] == "pass" else 0, "solver_s": m.get("solver_s"),
                    "solvers": m.get("solvers")})
    real_funcs = sorted(f for f in funcs if "::verif::" not in f and not f.startswith("kani::"))
    samples = []
    for p in per[:6]:
        samples.append({"harness": p["harness"], "symbolic_inputs_and_bounds": p["about"], "verdict": p["verdict"]})
    for rp in replays[:4]:
        samples.append({"counterexample_replay": rp["detail"], "file": rp["file"]})
    ev = {
        "property_id": prop,
        "tier": tier,
        "seed": seed,
        "level": "model_checking",
        "wall_s": round(wall, 2),
        "violations": len(violations),
        "coverage": {
            "states": max(1, len(per)),
            "transitions": max(1, vccs),
            "traces_validated_against_impl": sum(1 for rp in replays if rp["confirmed"]) +
                sum(m.get("native_validations", 0) for m in mir_results),
            "samples": samples or [{"note": "no harness ran"}],
            "obligations": obligations,
            "discharged": discharged,
            "evaluations": max(1, obligations),
            "distinct_nontrivial": len(labels),
            "rule": "states = harness instances decided this run (each is one symbolic family of pre-states/inputs, "
                    "bounds in per_harness[].about); transitions = verification conditions CBMC generated over them; "
                    "obligations = CBMC checks (property labels + Kani's built-in overflow/index/unwinding checks) + "
                    "vacuity witnesses + SMT queries; distinct_nontrivial = distinct labelled property obligations "
                    "proved (built-in checks not counted).",
            "exhaustive": False,
            "checker_cmd": "; ".join(g["cmd"] for g in groups_info)[:4000],
            "trusted_base": ["rustc/Kani codegen", "CBMC 6.11 bit-precise IEEE-754 encoding + CaDiCaL",
                             "harness oracles in /verif/harness", "z3/cvc5 for MIR->SMT queries"],
            "functions_encoded": real_funcs[:200],
            "property_obligations": sorted(labels),
            "per_harness": per,
            "groups": groups_info,
            "solver_seconds": round(solver_s, 2),
            "symex_seconds": round(symex_s, 2),
            "peak_rss_mb": max([g["peak_rss_mb"] for g in groups_info] or [0]),
            "known_findings_reported": [list(k) for k in known_seen],
            "inconclusive": inconclusive,
            "violating_harnesses": [{"harness": n, "obligations": l, "replay": f} for n, l, f in violations],
            "tools": tools,
            "repo_head": _git_head(REPO),
            "repo_dirty": _repo_dirty(),
            "verif_head": _git_head(VERIF),
        },
        "assumptions": sorted(set([p["about"] for p in per if p.get("about")]))[:60],
    }
    with open(os.path.join(EVID, "%s.json" % prop), "w") as fh:
        json.dump(ev, fh, indent=1)
