"""Run Kani (CBMC) on harnesses of a staged crate and parse its JSON report."""
import json
import os
import re
import subprocess
import threading
import time

KANI_ENV = {"CARGO_NET_OFFLINE": "true"}

# Kani checks that say "the model could not be built", not "the property fails"
_UNSUPPORTED = ("unsupported_construct",)


class BuildError(Exception):
    pass


# process groups of running cargo-kani invocations (killed when the check is terminated)
CHILD_GROUPS = set()


def kill_children():
    import signal
    for pg in list(CHILD_GROUPS):
        try:
            os.killpg(pg, signal.SIGKILL)
        except Exception:
            pass


def _descendants(pid):
    """pids of all descendants of pid (via /proc)."""
    kids = {}
    for p in os.listdir("/proc"):
        if not p.isdigit():
            continue
        try:
            with open("/proc/%s/stat" % p) as fh:
                st = fh.read()
            rp = st.rfind(")")
            fields = st[rp + 2:].split()
            ppid = int(fields[1])
            kids.setdefault(ppid, []).append(int(p))
        except Exception:
            continue
    out = []
    stack = [pid]
    while stack:
        x = stack.pop()
        for k in kids.get(x, []):
            out.append(k)
            stack.append(k)
    return out


class _Watchdog(threading.Thread):
    """Tracks peak RSS of cbmc children; kills any that exceeds the cap."""

    def __init__(self, pid, cap_gb):
        super().__init__(daemon=True)
        self.pid = pid
        self.cap_kb = int(cap_gb * 1024 * 1024)
        self.peak_kb = 0
        self.killed = 0
        self.stop = False

    def run(self):
        while not self.stop:
            for p in _descendants(self.pid):
                try:
                    with open("/proc/%d/comm" % p) as fh:
                        comm = fh.read().strip()
                    if not comm.startswith(("cbmc", "goto-", "kissat", "cadical")):
                        continue
                    rss = 0
                    with open("/proc/%d/status" % p) as fh:
                        for ln in fh:
                            if ln.startswith("VmRSS:"):
                                rss = int(ln.split()[1])
                    self.peak_kb = max(self.peak_kb, rss)
                    if rss > self.cap_kb:
                        os.kill(p, 9)
                        self.killed += 1
                except Exception:
                    continue
            time.sleep(1.0)


def discover_unwindset(stage_dir, harness, spec, stub, log_path=None, target_dir=None):
    """spec: "<function-substring>:<b1>,<b2>,..;<function-substring>:..." -- per-loop
    unwind bounds for the loops of a function, in source-line order.  CBMC loop names
    contain a per-build crate hash, so they are looked up in the compiled goto binary.
    Unwinding assertions stay on: a wrong bound can only make the run inconclusive."""
    import glob
    cmd = ["cargo", "kani", "--only-codegen", "--exact", "--harness", harness.fq]
    if target_dir:
        cmd += ["--target-dir", target_dir]
    if stub:
        cmd += ["-Z", "stubbing"]
    env = dict(os.environ)
    env.update(KANI_ENV)
    p = subprocess.run(cmd, cwd=stage_dir, env=env, capture_output=True, text=True)
    if log_path:
        with open(log_path, "a") as fh:
            fh.write("$ " + " ".join(cmd) + "\n" + p.stdout[-2000:] + p.stderr[-4000:] + "\n")
    tdir = target_dir or os.path.join(stage_dir, "target")
    outs = [f for f in glob.glob(os.path.join(tdir, "kani", "*", "debug", "build", "*", "*", "out", "*%s.out" % harness.name))
            if not f.endswith(".symtab.out")]
    if not outs:
        raise BuildError("codegen produced no goto binary for %s\n%s" % (harness.fq, (p.stdout + p.stderr)[-3000:]))
    outs.sort(key=os.path.getmtime)
    q = subprocess.run(["cbmc", "--show-loops", outs[-1]], capture_output=True, text=True)
    loops = []  # (name, line, function)
    cur = None
    for ln in q.stdout.splitlines():
        m = re.match(r"Loop (\S+):", ln)
        if m:
            cur = m.group(1)
            continue
        m = re.match(r"\s+file (\S+) line (\d+)(?: column \d+)? function (.*)$", ln)
        if m and cur:
            loops.append((cur, int(m.group(2)), m.group(3).strip()))
            cur = None
    args = []
    for part in spec.split(";"):
        if not part.strip():
            continue
        fn, bounds = part.rsplit(":", 1)
        bounds = [int(b) for b in bounds.split(",")]
        mine = sorted([l for l in loops if fn in l[2]], key=lambda l: l[1])
        if len(mine) != len(bounds):
            # the function's loop structure changed: fall back to the harness-wide bound
            continue
        for (name, _, _), b in zip(mine, bounds):
            args.append("%s:%d" % (name, b))
    return ",".join(args)


def run_group(stage_dir, harnesses, jobs=16, timeout_s=300, stub=False, cbmc_args="",
              solver="", mem_cap_gb=12, log_path=None, playback=None, tag="g", unwindset="", target_dir=None):
    if unwindset:
        us = discover_unwindset(stage_dir, harnesses[0], unwindset, stub, log_path, target_dir)
        if us:
            cbmc_args = (cbmc_args + " --unwindset " + us).strip()
    """harnesses: list of meta.Harness.  Returns dict name -> result dict.

    playback: None | "inplace" (adds -Z concrete-playback)."""
    out_json = os.path.join(stage_dir, "kani_%s.json" % tag)
    if os.path.exists(out_json):
        os.remove(out_json)
    cmd = ["cargo", "kani", "--output-format", "terse", "-Z", "unstable-options",
           "--harness-timeout", "%ds" % timeout_s, "--export-json", out_json, "--exact"]
    if target_dir:
        cmd += ["--target-dir", target_dir]
    if jobs and jobs > 1 and len(harnesses) > 1:
        cmd += ["-j", str(min(jobs, len(harnesses)))]
    if stub:
        cmd += ["-Z", "stubbing"]
    if solver:
        cmd += ["--solver", solver]
    if playback:
        # --no-slice-formula: every kani::any() of the harness gets a value in the trace, so the
        # generated test never runs out of values natively
        cmd += ["-Z", "concrete-playback", "--concrete-playback", playback, "--no-slice-formula"]
    for h in harnesses:
        cmd += ["--harness", h.fq]
    if cbmc_args:
        cmd += ["--cbmc-args"] + cbmc_args.split()
    env = dict(os.environ)
    env.update(KANI_ENV)
    t0 = time.time()
    proc = subprocess.Popen(cmd, cwd=stage_dir, env=env, stdout=subprocess.PIPE,
                            stderr=subprocess.STDOUT, text=True, start_new_session=True)
    CHILD_GROUPS.add(proc.pid)
    wd = _Watchdog(proc.pid, mem_cap_gb)
    wd.start()
    # overall guard: timeouts are per harness; harnesses run ceil(n/jobs) deep
    import math
    depth = math.ceil(len(harnesses) / max(1, min(jobs, len(harnesses))))
    overall = 180 + depth * (timeout_s + 30)
    try:
        out, _ = proc.communicate(timeout=overall)
    except subprocess.TimeoutExpired:
        for p in _descendants(proc.pid):
            try:
                os.kill(p, 9)
            except Exception:
                pass
        proc.kill()
        out, _ = proc.communicate()
        out += "\n[verif] overall timeout %ds expired\n" % overall
    wd.stop = True
    CHILD_GROUPS.discard(proc.pid)
    wall = time.time() - t0
    if log_path:
        with open(log_path, "a") as fh:
            fh.write("$ " + " ".join(cmd) + "\n")
            fh.write(out)
            fh.write("\n")
    if not os.path.exists(out_json):
        # compile error or crash before verification
        tail = "\n".join([l for l in out.splitlines() if l.startswith("error") or "error[" in l][:20])
        raise BuildError("cargo kani produced no report (exit %s)\n%s\n%s" % (
            proc.returncode, tail, "\n".join(out.splitlines()[-25:])))
    with open(out_json) as fh:
        rep = json.load(fh)
    err = {e["harness_id"]: e for e in rep.get("error_details", [])}
    stats = {c["harness_id"]: (c.get("cbmc_stats") or {}) for c in rep.get("cbmc", [])}
    res = {}
    by_id = {r["harness_id"]: r for r in rep.get("verification_results", {}).get("results", [])}
    for h in harnesses:
        r = by_id.get(h.fq)
        e = err.get(h.fq) or {}
        st = stats.get(h.fq, {})
        d = {"harness": h.name, "fq": h.fq, "wall_s": None, "verdict": "inconclusive",
             "reason": "", "failed": [], "covers_bad": [], "n_checks": 0, "n_ok": 0,
             "n_cover": 0, "n_cover_ok": 0, "labels": [], "functions": [],
             "solver_s": st.get("runtime_solver_s"), "symex_s": st.get("runtime_symex_s"),
             "vccs": st.get("vccs_generated", 0), "program_size": st.get("size_program_expression", 0)}
        if r is None:
            d["reason"] = "harness missing from Kani report"
            res[h.name] = d
            continue
        d["wall_s"] = r.get("duration_ms", 0) / 1000.0
        checks = r.get("checks", [])
        if e.get("exit_status") == "timeout":
            d["reason"] = "timeout after %ds" % timeout_s
            res[h.name] = d
            continue
        if not checks:
            d["reason"] = "no checks reported (exit_status=%s; out of memory or CBMC error)" % e.get("exit_status")
            res[h.name] = d
            continue
        funcs = set()
        fails = []
        unwind_fail = False
        unsupported_fail = False
        for c in checks:
            cat = c.get("category", "")
            stt = c.get("status", "")
            funcs.add(c.get("function", ""))
            loc = c.get("location", {})
            item = {"label": c.get("description", ""), "category": cat, "status": stt,
                    "function": c.get("function", ""),
                    "where": "%s:%s" % (loc.get("file", "?"), loc.get("line", "?"))}
            if c.get("description", "").startswith("NaN on "):
                # CBMC's NaN-generation checks: producing a NaN is not a panic in Rust
                continue
            if cat == "cover":
                d["n_cover"] += 1
                if stt == "Satisfied":
                    d["n_cover_ok"] += 1
                else:
                    d["covers_bad"].append(item)
                continue
            d["n_checks"] += 1
            if stt == "Success":
                d["n_ok"] += 1
                if re.match(r"C\d\d/", c.get("description", "")):
                    d["labels"].append(c.get("description", ""))
            elif stt == "Failure":
                if cat == "unwind" or "unwinding assertion" in c.get("description", ""):
                    unwind_fail = True
                elif cat in _UNSUPPORTED:
                    unsupported_fail = True
                fails.append(item)
            elif stt in ("Unreachable",):
                d["n_ok"] += 1
        d["functions"] = sorted(f for f in funcs if f)
        if unwind_fail:
            d["reason"] = "unwinding assertion failed (bound too small for this code)"
            d["failed"] = fails
        elif unsupported_fail:
            d["reason"] = "reachable unsupported construct: " + "; ".join(
                f["label"][:80] for f in fails if f["category"] in _UNSUPPORTED)
            d["failed"] = fails
        elif fails:
            d["verdict"] = "fail"
            d["failed"] = fails
        elif r.get("status") == "Success":
            if d["covers_bad"]:
                d["reason"] = "vacuity witness not satisfied: " + "; ".join(
                    c["label"] for c in d["covers_bad"])
            else:
                d["verdict"] = "pass"
        else:
            d["reason"] = "status=%s without failed checks" % r.get("status")
        res[h.name] = d
    return {"results": res, "wall_s": wall, "peak_rss_mb": wd.peak_kb // 1024,
            "killed_oom": wd.killed, "cmd": " ".join(cmd),
            "tools": rep.get("tools", {}), "raw_out": out}


def extract_playback_tests(text, harness_name, labels=None):
    """Concrete-playback unit tests printed by Kani (--concrete-playback=print):
    list of (name, text).  Only tests generated for a failed check are kept when
    `labels` is given (Kani also prints one per satisfied cover)."""
    out = []
    seen = set()
    for m in re.finditer(r'((?:///[^\n]*\n)*)\s*(#\[test\]\s*fn (kani_concrete_playback_%s_\d+)\(\)\s*\{.*?\n\})' % re.escape(harness_name),
                         text, re.S):
        doc, body, name = m.group(1), m.group(2), m.group(3)
        if name in seen:
            continue
        if labels is not None and "Check for `cover`" in doc:
            continue
        seen.add(name)
        out.append((name, body))
    return out
