// Harnesses anchored in src/quantizer.rs (mounted as `quantizer::verif`).
use super::*;

/// Inv_q: scale non-empty (12 bits); cached conversion either the power-on
/// record (note 0, stairstep f32::MIN) or the record of an earlier conversion:
/// note <= 131 (highest candidate the search can return) with stairstep == note/12.
fn any_quantizer(with_history: bool) -> Quantizer {
    let allowed: u16 = kani::any();
    kani::assume(allowed >= 1 && allowed <= 0x0fff);
    let mut q = Quantizer::new();
    q.allowed = allowed;
    if with_history {
        let n: u8 = kani::any();
        kani::assume(n <= 131);
        q.cached_conversion.note_num = n;
        q.cached_conversion.stairstep = n as f32 / 12.0_f32;
        q.cached_conversion.fraction = kani::any();
    }
    q
}

fn pitch_class_allowed(allowed: u16, note: u8) -> bool {
    (allowed >> (note % 12)) & 1 == 1
}

/// v clamped to [0,10] as the documentation prescribes (NaN -> 0), in whole units of
/// 1/12 microvolt (floor): note N sits at exactly N * 1_000_000 units.  The f64 product is
/// exact (24-bit mantissa times 2^8*46875); flooring loses < 1/12 microvolt, far inside the
/// 10 microvolt tolerance of the rule.
fn units(v: f32) -> i32 {
    let c = if v.is_nan() { 0.0_f32 } else if v < 0.0 { 0.0 } else if v > 10.0 { 10.0 } else { v };
    (c as f64 * 12_000_000.0) as i32 // 0 ..= 120_000_000
}

const SEMI: i32 = 1_000_000; // one semitone in units
const TOL: i32 = 120; // 10 microvolts in units

fn iabs(a: i32) -> i32 {
    if a < 0 { -a } else { a }
}

/// floor(y / SEMI) for y >= -TOL without a divider: a nondeterministic witness pinned by its
/// defining inequalities (multiplication by a constant only).
fn bucket_of(y: i32) -> i32 {
    let y = if y < 0 { 0 } else { y };
    let b: i32 = kani::any();
    kani::assume(b >= 0 && b <= 121);
    kani::assume(b * SEMI <= y && y < (b + 1) * SEMI);
    b
}

/// The C08 rule with its stated tolerance, in exact integer arithmetic.
/// r is acceptable for input position x iff r is allowed and, for some shift d of the input by
/// at most 10 microvolts (ties within 10 uV may go either way):
///  - the chromatic bucket note floor((x+d)/semitone) is allowed and r is that note, or
///  - that bucket note is forbidden and no allowed note is nearer to x+d than r
///    (for notes on a line: |x - P_r| <= |x - P_n| + 2*TOL for every allowed n).
/// Only notes within one octave of the bucket can matter (every octave holds an allowed note).
fn rule_ok_tol(allowed: u16, v: f32, r: u8) -> bool {
    if !pitch_class_allowed(allowed, r) {
        return false;
    }
    let x = units(v);
    let b_lo = bucket_of(x - TOL);
    let b_mid = bucket_of(x);
    let b_hi = bucket_of(x + TOL);
    let r = r as i32;
    if (pitch_class_allowed(allowed, b_lo as u8) && r == b_lo)
        || (pitch_class_allowed(allowed, b_mid as u8) && r == b_mid)
        || (pitch_class_allowed(allowed, b_hi as u8) && r == b_hi)
    {
        return true;
    }
    if pitch_class_allowed(allowed, b_lo as u8) && pitch_class_allowed(allowed, b_mid as u8)
        && pitch_class_allowed(allowed, b_hi as u8)
    {
        return false; // the bucket note is allowed for every admissible shift: it must win
    }
    let dr = iabs(x - r * SEMI);
    let mut k = -12;
    while k <= 12 {
        let n = b_mid + k;
        if n >= 0 && pitch_class_allowed(allowed, n as u8) {
            if iabs(x - n * SEMI) + 2 * TOL < dr {
                return false;
            }
        }
        k += 1;
    }
    true
}

// =====================================================================
// C07  never a forbidden note
// =====================================================================

/// build a note slice of symbolic length and content
fn any_notes() -> ([Note; 12], usize) {
    let raw: [u8; 12] = kani::any();
    let len: usize = kani::any();
    kani::assume(len <= 12);
    ([
        Note::new(raw[0]), Note::new(raw[1]), Note::new(raw[2]), Note::new(raw[3]),
        Note::new(raw[4]), Note::new(raw[5]), Note::new(raw[6]), Note::new(raw[7]),
        Note::new(raw[8]), Note::new(raw[9]), Note::new(raw[10]), Note::new(raw[11]),
    ], len)
}

// @family prop=C07 name=c07_convert_never_forbidden macro=c07_convert_never_forbidden n=4 quick=0,1,2,3 thorough=all timeout=1800 unwindset=find_nearest_note:4,13
// @about every state a history can reach, built through the public API; slice = quarter of the SECOND input's range (v2 < 2.5 incl. negatives, -inf and NaN / [2.5,5) / [5,7.5) / >= 7.5 incl. +inf), the four slices together cover every f32: any initial scale (all 4095), a first conversion of any f32 v1 (this is what the cache can hold: every later conversion leaves a record of the same form), then an ARBITRARY scale edit -- forbid(any slice of 0..=12 notes) followed by allow(any slice of 0..=12 notes), either may be empty -- then a conversion of v2 (incl. v2 == v1): the pitch class reported by BOTH conversions is allowed in the scale in force at that call (read back with is_allowed); in every octave
macro_rules! c07_convert_never_forbidden {
    ($name:ident, $k:expr) => {
        #[kani::proof]
        #[kani::unwind(14)]
        fn $name() {
            let mut q = any_quantizer(false);
            let v1: f32 = kani::any();
            let c1 = q.convert(v1);
            vassert!(q.is_allowed(Note::new(c1.note_num % 12)), "C07/convert/pitch-class-allowed-now");
            let (f_notes, f_len) = any_notes();
            let (a_notes, a_len) = any_notes();
            if f_len >= 1 {
                q.forbid(&f_notes[..f_len]);
            }
            q.allow(&a_notes[..a_len]);
            let v2: f32 = kani::any();
            let k: u32 = $k;
            if k == 0 {
                kani::assume(!(v2 >= 2.5));
            } else if k == 3 {
                kani::assume(v2 >= 7.5);
            } else {
                kani::assume(v2 >= 2.5 * k as f32 && v2 < 2.5 * (k + 1) as f32);
            }
            let c2 = q.convert(v2);
            vassert!(q.is_allowed(Note::new(c2.note_num % 12)), "C07/convert/pitch-class-allowed-after-any-scale-edit");
            vassert!(q.allowed != 0 && q.allowed <= 0x0fff, "C07/scale/non-empty-12-bits");
            vcover!(v1 == v2 && c2.note_num != c1.note_num, "witness: same input, note had to change");
            vcover!(f_len == 12, "witness: forbid tried to empty the scale");
        }
    };
}

// @harness prop=C17,C19 tier=quick timeout=900 unwindset=find_nearest_note:4,13
// @about no panic from any stored state: any Inv_q state (all 4095 scales, any cached note 0..=131 with its stairstep, or the power-on record), any f32 input incl. NaN, +-inf, subnormals: convert() and find_nearest_note() raise no panic / overflow / out-of-range cast (Kani built-in checks); the scale is not edited by convert. Loops unwound: octave loop 3(+1), note loop 12(+1), unwinding assertions on
#[kani::proof]
#[kani::unwind(14)]
fn c17_convert_no_panic_from_any_state() {
    let hist: bool = kani::any();
    let mut q = any_quantizer(hist);
    let allowed = q.allowed;
    let v: f32 = kani::any();
    let c = q.convert(v);
    vassert!(q.allowed == allowed, "C17/convert/does-not-edit-the-scale");
    vassert!(c.note_num <= 131, "C17/convert/note-number-bounded");
    vcover!(v.is_nan(), "witness: NaN input");
    vcover!(c.note_num >= 121, "witness: a note above 10 V");
}

// @harness prop=C07,C20,C17 tier=quick timeout=600
// @about any non-empty scale, any argument slice of length 0..=12 (incl. the empty slice) for allow and forbid with any u8 note values (values above 11 act as 11): the scale stays within 12 bits and non-empty; forbid clears exactly the named classes unless that would empty the scale, in which case exactly the last note of the argument stays allowed; allow sets exactly the named classes; is_allowed reads the bit
#[kani::proof]
#[kani::unwind(14)]
fn c07_allow_forbid_keep_scale_nonempty() {
    let mut q = any_quantizer(false);
    let before = q.allowed;
    let raw: [u8; 12] = kani::any();
    let len: usize = kani::any();
    let do_forbid: bool = kani::any();
    // forbid(&[]) on a non-empty scale must not panic either; only a call that empties the scale needs a last note
    kani::assume(len <= 12 && (len >= 1 || before != 0));
    let notes: [Note; 12] = [
        Note::new(raw[0]), Note::new(raw[1]), Note::new(raw[2]), Note::new(raw[3]),
        Note::new(raw[4]), Note::new(raw[5]), Note::new(raw[6]), Note::new(raw[7]),
        Note::new(raw[8]), Note::new(raw[9]), Note::new(raw[10]), Note::new(raw[11]),
    ];
    let mut mask: u16 = 0;
    let mut i = 0;
    while i < 12 {
        if i < len {
            mask |= 1 << (if raw[i] <= 11 { raw[i] } else { 11 });
        }
        i += 1;
    }
    if do_forbid {
        q.forbid(&notes[..len]);
        let want = before & !mask;
        if want != 0 {
            vassert!(q.allowed == want, "C07/forbid/clears-exactly-the-named-notes");
        } else {
            let last = if len >= 1 && raw[len - 1] <= 11 { raw[len - 1] } else { 11 };
            vassert!(len >= 1 && q.allowed == 1 << last, "C07/forbid/emptying-leaves-last-argument-allowed");
        }
    } else {
        q.allow(&notes[..len]);
        vassert!(q.allowed == before | mask, "C07/allow/sets-exactly-the-named-notes");
    }
    vassert!(q.allowed != 0 && q.allowed <= 0x0fff, "C07/scale/non-empty-12-bits");
    let probe: u8 = kani::any();
    let pc = if probe <= 11 { probe } else { 11 };
    vassert!(q.is_allowed(Note::new(probe)) == ((q.allowed >> pc) & 1 == 1), "C07/is_allowed/reads-the-bit");
    vcover!(do_forbid && before & !mask == 0, "witness: forbid would empty the scale");
    vcover!(len == 12, "witness: 12 notes");
    vcover!(raw[0] > 11, "witness: out-of-range note value");
}

// @harness prop=C07 tier=quick timeout=900 unwindset=find_nearest_note:4,13
// @about two-call history through the public API: convert(v); forbid(the pitch class just reported); convert(v) again with the same input -- any scale with >= 2 notes, any v: the second conversion must not report the class that was just forbidden (any octave)
#[kani::proof]
#[kani::unwind(14)]
fn c07_scale_edit_between_conversions() {
    let mut q = any_quantizer(false);
    kani::assume(q.allowed & (q.allowed - 1) != 0); // at least two notes
    let v: f32 = kani::any();
    kani::assume(v >= 0.0 && v <= 10.0);
    let c1 = q.convert(v);
    let pc = c1.note_num % 12;
    q.forbid(&[Note::new(pc)]);
    let c2 = q.convert(v);
    vassert!(c2.note_num % 12 != pc, "C07/history/forbidden-note-not-reported-after-scale-edit");
    vassert!(pitch_class_allowed(q.allowed, c2.note_num), "C07/history/second-conversion-allowed");
    vcover!(c1.note_num >= 24, "witness: octave >= 2");
    vcover!(c1.note_num < 12, "witness: octave 0");
}

// =====================================================================
// C08  nearest allowed note, every octave
// =====================================================================

// @family prop=C08 name=c08_nearest_octave n=11 quick=0,1,2,3,4,5,6,7,8,9,10 timeout=1500 unwindset=find_nearest_note:4,13
// @about octave slice k: fresh quantizer (no history), all 4095 scales, every f32 v with k <= v < k+1 (slice 10: v >= 10 incl. +inf; slice 0 also takes v < 0, -inf and NaN, which clamp to 0): the reported note satisfies the nearest-allowed-note rule evaluated in exact arithmetic (note N at N/12 V; an allowed bucket note floor(12 v) wins; otherwise no allowed note is nearer), where ties within 10 microvolts may go either way (rule accepted at x, x-10uV or x+10uV); stairstep == note/12
macro_rules! c08_nearest_octave {
    ($name:ident, $k:expr) => {
        #[kani::proof]
        #[kani::unwind(27)]
        fn $name() {
            let mut q = any_quantizer(false);
            let allowed = q.allowed;
            let v: f32 = kani::any();
            let k: u32 = $k;
            if k == 0 {
                kani::assume(!(v >= 1.0));
            } else if k == 10 {
                kani::assume(v >= 10.0);
            } else {
                kani::assume(v >= k as f32 && v < (k + 1) as f32);
            }
            let c = q.convert(v);
            vassert!(rule_ok_tol(allowed, v, c.note_num), "C08/nearest-allowed-note-rule");
            vassert!(c.stairstep == c.note_num as f32 / 12.0, "C08/stairstep-is-note/12");
            vcover!(!pitch_class_allowed(allowed, (units(v) / SEMI) as u8), "witness: bucket note forbidden");
            vcover!(allowed & (allowed - 1) == 0, "witness: single-note scale");
        }
    };
}

// @family prop=C08 name=c08_monotone_in_v macro=c08_monotone_in_v n=11 tier=thorough thorough=all timeout=2400 optional=1 unwindset=find_nearest_note:4,13
// @about (thorough tier, optional: reported only if it finishes) the relational consequence stated in C08, decided directly: two fresh real quantizers with the same scale (all 4095), inputs v <= v' with v in octave slice k and v' - v <= 1 V (larger gaps follow by chaining): the note reported for v' is not lower than the note reported for v, except that within 10 microvolts (the stated tie tolerance) the order may flip by one step of the scale
macro_rules! c08_monotone_in_v {
    ($name:ident, $k:expr) => {
        #[kani::proof]
        #[kani::unwind(14)]
        fn $name() {
            let mut q1 = any_quantizer(false);
            let mut q2 = Quantizer::new();
            q2.allowed = q1.allowed;
            let v: f32 = kani::any();
            let w: f32 = kani::any();
            let k: u32 = $k;
            if k == 10 {
                kani::assume(v >= 10.0 && v <= 11.0);
            } else {
                kani::assume(v >= k as f32 && v < (k + 1) as f32);
            }
            kani::assume(w >= v && w <= v + 1.0);
            let c1 = q1.convert(v);
            let c2 = q2.convert(w);
            // the tie tolerance: only inputs further apart than 20 microvolts are ordered strictly
            if (w as f64) - (v as f64) > 2.0e-5 {
                vassert!(c2.note_num >= c1.note_num, "C08/note-never-decreases-as-v-rises");
            }
            vcover!((w as f64) - (v as f64) > 2.0e-5, "witness: inputs further apart than the tie tolerance");
        }
    };
}

// =====================================================================
// C09  hysteresis
// =====================================================================

// @family prop=C09 name=c09_hysteresis_step macro=c09_hysteresis_step n=11 quick=0,1,2,3,4,5,6,7,8,9,10 thorough=all timeout=2400 unwindset=find_nearest_note:4,13
// @about octave slice k of the INPUT (k <= v < k+1; slice 0 also v < 0, -inf, NaN; slice 10: v >= 10 incl. +inf): one conversion from any Inv_q state with history (any scale, cached note 0..=131), any v in the slice: if the cached note is still allowed and v lies strictly inside its bucket widened by 0.1 semitone each side (edges in exact f64 arithmetic, +-1 microvolt don't-care band), the note is kept; if v is outside the window by more than the band, or the cached note is no longer allowed, note, stairstep and fraction equal those of a fresh quantizer with the same scale on the same input (differential, second real instance). both tiers: all 11 octaves
macro_rules! c09_hysteresis_step {
    ($name:ident, $k:expr) => {
        #[kani::proof]
        #[kani::unwind(14)]
        fn $name() {
            let mut q = any_quantizer(true);
            let allowed = q.allowed;
            let n0 = q.cached_conversion.note_num;
            let v: f32 = kani::any();
            let k: u32 = $k;
            if k == 0 {
                kani::assume(!(v >= 1.0));
            } else if k == 10 {
                kani::assume(v >= 10.0);
            } else {
                kani::assume(v >= k as f32 && v < (k + 1) as f32);
            }
            let mut fresh = Quantizer::new();
            fresh.allowed = allowed;
            let c = q.convert(v);
            let f = fresh.convert(v);
            // window in exact arithmetic, scaled by 12: (n0 - 0.1, n0 + 1.1) semitones; band 1 uV = 1.2e-5 semitone
            let s = v as f64 * 12.0;
            let lo = n0 as f64 - 0.1;
            let hi = n0 as f64 + 1.1;
            let band = 1.2e-5;
            let still_allowed = pitch_class_allowed(allowed, n0);
            let inside = s > lo + band && s < hi - band;
            let outside = v.is_nan() || s < lo - band || s > hi + band;
            if still_allowed && inside {
                vassert!(c.note_num == n0, "C09/inside-window-keeps-note");
                vassert!(c.stairstep == n0 as f32 / 12.0, "C09/inside-window-keeps-stairstep");
            }
            if !still_allowed || outside {
                vassert!(c.note_num == f.note_num, "C09/outside-window-equals-history-free-result");
                vassert!(c.stairstep == f.stairstep && (c.fraction == f.fraction || v.is_nan()), "C09/outside-window-record-equals-history-free");
            }
            vassert!(c.note_num == f.note_num || (still_allowed && c.note_num == n0), "C09/result-is-kept-note-or-history-free");
            vcover!(still_allowed && inside && f.note_num != n0, "witness: hysteresis overrides the history-free result");
            vcover!(!still_allowed && n0 >= 12, "witness: cached note above octave 0 was forbidden since");
            vcover!(still_allowed && outside, "witness: left the window");
        }
    };
}

// @family prop=C09 name=c09_window_survives_scale_edits macro=c09_window_survives_scale_edits n=11 quick=0,5,10 seeded=1 thorough=all timeout=2400 unwindset=find_nearest_note:4,13
// @about public API only, slice k = octave of the FIRST input: any scale; convert(v1) with v1 in octave k; then an arbitrary scale edit -- forbid(any slice of 0..=12 notes) followed by allow(any slice of 0..=12 notes), incl. redundant edits -- then convert(v2): if the note reported first is still allowed after the edit and v2 lies strictly inside its bucket widened by 0.1 semitone each side (2 microvolts inside the edges), the second conversion reports the same note and stairstep: a scale edit that leaves the current note allowed does not reset the hysteresis
macro_rules! c09_window_survives_scale_edits {
    ($name:ident, $k:expr) => {
        #[kani::proof]
        #[kani::unwind(14)]
        fn $name() {
            let mut q = any_quantizer(false);
            let v1: f32 = kani::any();
            let k: u32 = $k;
            if k == 10 {
                kani::assume(v1 >= 10.0 && v1 <= 11.0);
            } else {
                kani::assume(v1 >= k as f32 && v1 < (k + 1) as f32);
            }
            let c1 = q.convert(v1);
            let n1 = c1.note_num;
            let (f_notes, f_len) = any_notes();
            let (a_notes, a_len) = any_notes();
            if f_len >= 1 {
                q.forbid(&f_notes[..f_len]);
            }
            q.allow(&a_notes[..a_len]);
            let v2: f32 = kani::any();
            let s = v2 as f64 * 12.0;
            let inside = s > n1 as f64 - 0.1 + 2.4e-5 && s < n1 as f64 + 1.1 - 2.4e-5;
            kani::assume(inside);
            let still = q.is_allowed(Note::new(n1 % 12));
            let c2 = q.convert(v2);
            if still {
                vassert!(c2.note_num == n1, "C09/scale-edit/inside-window-keeps-note-while-it-stays-allowed");
                vassert!(c2.stairstep == c1.stairstep, "C09/scale-edit/inside-window-keeps-stairstep");
            } else {
                vassert!(c2.note_num % 12 != n1 % 12, "C09/scale-edit/forbidden-note-is-dropped");
            }
            vcover!(still && a_len >= 1 && (s < n1 as f64 || s > n1 as f64 + 1.0), "witness: allow() call, input in the hysteresis margin");
            vcover!(!still, "witness: current note forbidden by the edit");
        }
    };
}

// =====================================================================
// C19  record consistency
// =====================================================================

// @family prop=C19 name=c19_record_consistency macro=c19_record_consistency n=11 quick=0,1,2,3,4,5,6,7,8,9,10 thorough=all timeout=2400 unwindset=find_nearest_note:4,13
// @about octave slice k of the input (as c09_hysteresis_step): one conversion from any Inv_q state (with or without history), any scale, any f32 v in the slice: stairstep == note/12 (f32 division, exactly); for finite v in [0,10]: |stairstep + fraction - v| <= 2 ulp(v) (ulp of 1.0 below 1 V); outside [0,10]: stairstep + fraction reproduces v or its clamped value within the same tolerance; chromatic scale without history: 0 <= fraction < 1 semitone (+-10 microvolts, the quantizer's stated tie tolerance); whenever the record differs from the history-free record of a second real quantizer (i.e. the hysteresis window kept the previous note): the kept note is the cached one and -0.1 <= fraction <= 1.1 semitones (+-10 microvolts)
macro_rules! c19_record_consistency {
    ($name:ident, $k:expr) => {
        #[kani::proof]
        #[kani::unwind(14)]
        fn $name() {
            let hist: bool = kani::any();
            let mut q = any_quantizer(hist);
            let chromatic = q.allowed == 0x0fff;
            let n0 = q.cached_conversion.note_num;
            let s0 = q.cached_conversion.stairstep;
            let still_allowed = hist && pitch_class_allowed(q.allowed, n0);
            let v: f32 = kani::any();
            let k: u32 = $k;
            if k == 0 {
                kani::assume(!(v >= 1.0));
            } else if k == 10 {
                kani::assume(v >= 10.0);
            } else {
                kani::assume(v >= k as f32 && v < (k + 1) as f32);
            }
            let mut fresh = Quantizer::new();
            fresh.allowed = q.allowed;
            let c = q.convert(v);
            let f = fresh.convert(v);
            vassert!(c.stairstep == c.note_num as f32 / 12.0_f32, "C19/stairstep-is-note/12");
            // the record differs from the history-free one only when the hysteresis window kept the previous note
            let differs = c.note_num != f.note_num || (c.fraction != f.fraction && !v.is_nan());
            if differs {
                vassert!(still_allowed && c.note_num == n0, "C19/record-differs-from-history-free-only-by-keeping-the-cached-note");
                vassert!(c.fraction as f64 >= -0.1 / 12.0 - 1.0e-5 && c.fraction as f64 <= 1.1 / 12.0 + 1.0e-5,
                    "C19/kept-note-fraction-in-[-0.1,1.1]-semitones");
            }
            let semi = 1.0_f64 / 12.0;
            if v.is_finite() {
                let sum = c.stairstep + c.fraction;
                let clamped = if v < 0.0 { 0.0_f32 } else if v > 10.0 { 10.0 } else { v };
                let tol = |t: f32| -> f64 {
                    let a = if t < 0.0 { -t } else { t };
                    let u = if a < 1.0 { 1.1920929e-7_f64 } else { (f32::from_bits((a.to_bits() & 0x7f80_0000)) as f64) * 1.1920929e-7 };
                    2.0 * u
                };
                let e_in = (sum as f64 - v as f64).abs();
                let e_cl = (sum as f64 - clamped as f64).abs();
                if v >= 0.0 && v <= 10.0 {
                    vassert!(e_in <= tol(v), "C19/stairstep+fraction-reproduces-input-within-2ulp");
                } else {
                    vassert!(e_in <= tol(v) || e_cl <= tol(clamped), "C19/out-of-range-reproduces-input-or-clamped");
                }
                if chromatic && !hist && v >= 0.0 && v <= 10.0 {
                    vassert!(c.fraction as f64 >= -1.0e-5 && (c.fraction as f64) < semi + 1.0e-5, "C19/chromatic-fraction-in-[0,1)-semitone");
                }
                // "the window kept the previous note": v strictly inside the widened bucket (2 uV inside its edges, so that
                // the f32 rounding of the edges cannot matter); at the very edge the history-free path may return the same
                // note by the nearest-note rule, with a fraction computed from the clamped input
                let kept = still_allowed && c.note_num == n0
                    && (v as f64) > (n0 as f64 - 0.1) / 12.0 + 2.0e-6 && (v as f64) < (n0 as f64 + 1.1) / 12.0 - 2.0e-6;
                if kept {
                    // 10 microvolts: the f32 grid at 10 V is about 1 microvolt and stairstep, window edge and
                    // difference are each rounded to it
                    vassert!(c.fraction as f64 >= -0.1 * semi - 1.0e-5 && c.fraction as f64 <= 1.1 * semi + 1.0e-5,
                        "C19/kept-note-fraction-in-[-0.1,1.1]-semitones");
                }
            }
            vcover!(differs, "witness: hysteresis overrides the history-free record");
            vcover!(chromatic && !hist, "witness: chromatic, no history");
            vcover!(hist && !still_allowed, "witness: cached note no longer allowed");
        }
    };
}

// =====================================================================
// C20  note numbers above 11 act as 11
// =====================================================================

// @harness prop=C20 tier=quick timeout=300
// @about all 256 u8 values n: Note::new(n) / Note::from(n) equal the note min(n,11), round-trip to u8 as min(n,11); allow/forbid/is_allowed with Note(n>11) act on a symbolic scale exactly like Note(11)
#[kani::proof]
#[kani::unwind(3)]
fn c20_note_above_11_acts_as_11() {
    let n: u8 = kani::any();
    let m = if n <= 11 { n } else { 11 };
    vassert!(u8::from(Note::new(n)) == m && u8::from(Note::from(n)) == m, "C20/note/clamped-to-0..=11");
    vassert!(Note::new(n) == Note::new(m), "C20/note/equals-clamped-note");
    let q0 = any_quantizer(false);
    let mut a = Quantizer::new();
    a.allowed = q0.allowed;
    let mut b = Quantizer::new();
    b.allowed = q0.allowed;
    vassert!(a.is_allowed(Note::new(n)) == b.is_allowed(Note::new(m)), "C20/note/is_allowed-acts-as-clamped");
    let forbid: bool = kani::any();
    if forbid {
        a.forbid(&[Note::new(n)]);
        b.forbid(&[Note::new(m)]);
    } else {
        a.allow(&[Note::from(n)]);
        b.allow(&[Note::from(m)]);
    }
    vassert!(a.allowed == b.allowed, "C20/note/scale-edit-acts-as-clamped");
    vcover!(n == 255, "witness: 255");
    vcover!(n == 12, "witness: 12");
    vcover!(n == 11, "witness: 11");
}
