// Harnesses anchored in src/glide_processor.rs (mounted as `glide_processor::verif`).
//
// Environment: on this host biquad's `(omega / 2.0).tan()` resolves to std's f32::tan, i.e. the
// foreign function tanf, which a model checker cannot execute.  It is replaced (Kani stub,
// -Z stubbing) by `tan_model`: an arbitrary value constrained only by the contract of tan on
// [0, 0.8]: between the tangent at the left node and the chord of a 256-segment partition (tan
// is convex there), widened by 2e-6 relative, plus tan(pi/4 + d) = 1 + 2d +- 1.5e-7 for |d| < 1e-5.  Outside [0, 0.8] the result is unconstrained.
// The nondeterministic values are drawn by the harness up front (TAN_ND) so that Kani's
// concrete playback, which runs the REAL tan natively, stays in step.
use super::*;

static mut TAN_ND: [f32; 2] = [0.0; 2];
static mut TAN_CALLS: usize = 0;
static mut TAN_LAST_ARG: f32 = 0.0;
static mut TAN_ND3: [f32; 3] = [0.0; 3];
static mut TAN_CALLS3: usize = 0;
static mut USE_POOL3: bool = false;
/// true: tan_model returns ONE representative of its contract (the lower envelope; 1+2d at pi/4) without nondeterminism
static mut TAN_REPRESENTATIVE: bool = false;

fn tan_contract(x: f32, y: f32) -> bool {
    if !(x >= 0.0 && x < TAN_XMAX) {
        return true; // outside the contract's domain: anything
    }
    let mut i = (x * TAN_INV_H) as usize;
    if i >= TAN_N {
        i = TAN_N - 1;
    }
    let dx = x - TAN_X0[i];
    let lo = TAN_T0[i] + TAN_SLO[i] * dx;
    let hi = TAN_T0[i] + TAN_SHI[i] * dx;
    if !(y >= lo * (1.0 - 2.0e-6) - 1.0e-12 && y <= hi * (1.0 + 2.0e-6) + 1.0e-12) {
        return false;
    }
    // around pi/4 (the fastest setting) the filter needs tan to 1 ulp: tan(pi/4 + d) = 1 + 2d + O(d^2)
    let d = x as f64 - core::f64::consts::FRAC_PI_4;
    if d > -1.0e-5 && d < 1.0e-5 {
        let lin = 1.0 + 2.0 * d;
        return (y as f64) >= lin - 1.5e-7 && (y as f64) <= lin + 1.5e-7;
    }
    true
}

fn tan_representative(x: f32) -> f32 {
    if !(x >= 0.0 && x < TAN_XMAX) {
        return x; // outside the contract's domain (never reached with the cutoff clamp in place)
    }
    let d = x as f64 - core::f64::consts::FRAC_PI_4;
    if d > -1.0e-5 && d < 1.0e-5 {
        return (1.0 + 2.0 * d) as f32;
    }
    let mut i = (x * TAN_INV_H) as usize;
    if i >= TAN_N {
        i = TAN_N - 1;
    }
    TAN_T0[i] + TAN_SLO[i] * (x - TAN_X0[i])
}

fn tan_model(x: f32) -> f32 {
    unsafe {
        if TAN_REPRESENTATIVE {
            TAN_LAST_ARG = x;
            return tan_representative(x);
        }
        if USE_POOL3 {
            let k = if TAN_CALLS3 < 3 { TAN_CALLS3 } else { 2 };
            let y = TAN_ND3[k];
            TAN_CALLS3 += 1;
            TAN_LAST_ARG = x;
            kani::assume(tan_contract(x, y));
            return y;
        }
        let k = if TAN_CALLS < 2 { TAN_CALLS } else { 1 };
        let y = TAN_ND[k];
        TAN_CALLS += 1;
        TAN_LAST_ARG = x;
        kani::assume(tan_contract(x, y));
        y
    }
}

fn draw_tan() {
    unsafe {
        TAN_ND = [kani::any(), kani::any()];
        TAN_CALLS = 0;
    }
}

fn coeffs_of(gp: &mut GlideProcessor) -> Coefficients<f32> {
    // read the installed coefficients back through the public biquad API
    let c = gp.lpf.replace_coefficients(Coefficients { a1: 0.0, a2: 0.0, b0: 0.0, b1: 0.0, b2: 0.0 });
    gp.lpf.update_coefficients(c);
    c
}

/// "legal one-pole low-pass": a convex combination of the new input, the previous input and the
/// previous output (weights >= 0 summing to 1 within 4 half-ulps of 1.0), nothing else.
fn legal(c: &Coefficients<f32>) -> bool {
    legal_range(c) && weights_sum_to_one(c)
}

/// range part of legality: one pole, no second-order terms, weights non-negative, pole in [-3e-7, 1)
fn legal_range(c: &Coefficients<f32>) -> bool {
    let p = -c.a1;
    c.b2 == 0.0 && c.a2 == 0.0 && c.b0 == c.b1 && c.b0 >= 0.0 && c.b0 <= 0.5000001 && p >= -3.0e-7 && p < 1.0
}

fn weights_sum_to_one(c: &Coefficients<f32>) -> bool {
    let sum = c.b0 as f64 + c.b1 as f64 + (-c.a1) as f64;
    sum >= 1.0 - 2.4e-7 && sum <= 1.0 + 2.4e-7
}

const RATES: [f32; 6] = [100.0, 1_000.0, 48_000.0, 8_000.0, 44_100.0, 22_050.0];

// =====================================================================
// C13  coefficient legality for every time setting
// =====================================================================

// @family prop=C13,C17 name=c13_coeffs_legal macro=c13_coeffs_legal n=6 quick=0,1,2 thorough=all timeout=1200 stub=1
// @about slice = sample rate {100, 1000, 48000, 8000, 44100, 22050 Hz}: fresh GlideProcessor::new(fs) and then set_time(t) for ANY f32 t in [0, 10] (incl. 0, subnormals, values below 2/fs): the coefficients installed by new() and by set_time() are those of a one-pole low-pass with non-negative weights: b2 = a2 = 0, b0 == b1 in [0, 0.5], pole -a1 in [-3e-7, 1) -- never negative beyond rounding, never on the unit circle; no panic (unwrap of from_params). tan replaced by its contract. (That the three weights sum to 1 is c13_weights_sum_to_one.)
macro_rules! c13_coeffs_legal {
    ($name:ident, $k:expr) => {
        #[kani::proof]
        #[kani::stub(f32::tan, tan_model)]
        fn $name() {
            draw_tan();
            let fs: f32 = RATES[$k];
            let mut gp = GlideProcessor::new(fs);
            let c0 = coeffs_of(&mut gp);
            vassert!(legal_range(&c0), "C13/new/coefficients-are-a-one-pole-lowpass-with-pole-in-[0,1)");
            let t: f32 = kani::any();
            kani::assume(t >= 0.0 && t <= 10.0);
            gp.set_time(t);
            let c = coeffs_of(&mut gp);
            vassert!(legal_range(&c), "C13/set_time/coefficients-are-a-one-pole-lowpass-with-pole-in-[0,1)");
            vassert!(gp.cached_t == t, "C14/set_time/first-call-is-honoured");
            vcover!(t == 0.0, "witness: glide off");
            vcover!(t > 0.0 && t * fs < 2.0, "witness: shorter than two samples");
            vcover!(t == 10.0, "witness: slowest setting");
            vcover!(unsafe { TAN_CALLS } == 2, "witness: tan called by new() and by set_time()");
        }
    };
}

// @family prop=C13 name=c13_weights_sum_to_one macro=c13_weights_sum_to_one n=6 quick=1,2 thorough=all timeout=900 stub=1
// @about slice = sample rate as above; the 8 settings t in {0, 0.001, 0.004, 0.01, 0.1, 0.5, 1, 10} s, evaluated concretely by the model checker with ONE representative of the tan contract (lower envelope): the three weights b0 + b1 + pole installed by new() and set_time(t) sum to 1 within 2.4e-7, so every output sample is a convex combination of the new input, the previous input and the previous output up to that residue -- the 'f32 resolution of the filter'. (With t or the tangent value symbolic the query relates two f32 dividers and did not finish in 20 min even on a 161-point grid; for all other settings the claim rests on the three-rounding argument |2*fl(ot/a0) + fl((1-ot)/a0) - 1| <= 2^-24 + 2^-25 + 2*2^-26 with a0 = fl(1+ot).)
macro_rules! c13_weights_sum_to_one {
    ($name:ident, $k:expr) => {
        #[kani::proof]
        #[kani::unwind(10)]
        #[kani::stub(f32::tan, tan_model)]
        fn $name() {
            unsafe { TAN_REPRESENTATIVE = true; }
            let fs: f32 = RATES[$k];
            let times: [f32; 8] = [0.0, 0.001, 0.004, 0.01, 0.1, 0.5, 1.0, 10.0];
            let mut i = 0;
            while i < 8 {
                let mut gp = GlideProcessor::new(fs);
                let c0 = coeffs_of(&mut gp);
                vassert!(weights_sum_to_one(&c0), "C13/new/weights-sum-to-one");
                gp.set_time(times[i]);
                let c = coeffs_of(&mut gp);
                vassert!(weights_sum_to_one(&c) && legal_range(&c), "C13/set_time/weights-sum-to-one");
                i += 1;
            }
            vcover!(i == 8, "witness: all settings evaluated");
        }
    };
}

// =====================================================================
// C13  one step of a legal filter is a convex combination; no ringing
// =====================================================================

// @family prop=C13 name=c13_step macro=c13_step n=9 tier=thorough thorough=3 tseeded=0 timeout=3000 optional=1
// @about (thorough tier, reported only if it finishes: three symbolic float products against a tolerance did not finish in 40 min at G=5) slice G = signal grid 2^-G: one process() call of the real biquad with ARBITRARY legal coefficients (b0 = b1 and pole symbolic f32 subject to the legality predicate) and arbitrary filter state (previous input x1, previous output y1) forced through the public biquad API, signals x, x1, y1 on the grid in [-1, 1]: the output lies within [min(x,x1,y1), max(x,x1,y1)] +- 8 ulp(1.0); with a held input (x1 == x) the error x - y keeps the sign of x - y1 and does not grow (monotone approach, no ringing). By induction over samples (hull only grows with inputs) and over set_time calls (each installs legal coefficients, c13_coeffs_legal, and leaves x1/y1 untouched) the range claim holds for every input sequence and every set_time schedule
macro_rules! c13_step {
    ($name:ident, $g:expr) => {
        #[kani::proof]
        fn $name() {
            let b0: f32 = kani::any();
            let a1: f32 = kani::any();
            let c = Coefficients { a1, a2: 0.0, b0, b1: b0, b2: 0.0 };
            kani::assume(legal(&c));
            const ONE: i16 = 1 << $g;
            let gx: i16 = kani::any();
            let gx1: i16 = kani::any();
            let gy1: i16 = kani::any();
            kani::assume(gx >= -ONE && gx <= ONE && gx1 >= -ONE && gx1 <= ONE && gy1 >= -ONE && gy1 <= ONE);
            let held: bool = kani::any();
            let x = gx as f32 / ONE as f32;
            let x1 = if held { x } else { gx1 as f32 / ONE as f32 };
            let y1 = gy1 as f32 / ONE as f32;
            // force the state (x1, y1) through the public API with coefficients whose arithmetic is exact
            let mut f = DirectForm1::<f32>::new(Coefficients { a1: 0.0, a2: 0.0, b0: 1.0, b1: 0.0, b2: 0.0 });
            let _ = f.run(y1); // x1 = y1, y1 = y1
            f.update_coefficients(Coefficients { a1: -1.0, a2: 0.0, b0: 0.0, b1: 0.0, b2: 0.0 });
            let o = f.run(x1); // out = y1, x1 = x1
            vassert!(o == y1, "C13/step/state-forcing-is-exact");
            f.update_coefficients(c);
            let mut gp = GlideProcessor { min_fc: 0.1, max_fc: 250.0, fs: 1000.0.hz(), lpf: f, cached_t: 1.0 };
            let y = gp.process(x);
            let lo = if x < x1 { if x < y1 { x } else { y1 } } else if x1 < y1 { x1 } else { y1 };
            let hi = if x > x1 { if x > y1 { x } else { y1 } } else if x1 > y1 { x1 } else { y1 };
            let tol = 8.0 * 1.1920929e-7; // pole down to -3e-7 (rounding of tan at pi/4) plus 4 ulp of arithmetic
            vassert!(y >= lo - tol && y <= hi + tol, "C13/step/output-within-hull-of-input-prev-input-prev-output");
            if held {
                let e1 = x - y1;
                let e = x - y;
                if e1 >= 0.0 {
                    vassert!(e >= -tol && e <= e1 + tol, "C13/step/held-input:error-keeps-sign-and-does-not-grow");
                } else {
                    vassert!(e <= tol && e >= e1 - tol, "C13/step/held-input:error-keeps-sign-and-does-not-grow");
                }
            }
            vcover!(held && y1 < x && y > y1, "witness: moving toward a held input");
            vcover!(!held && x1 < y1 && y1 < x, "witness: three distinct values");
            vcover!(a1 == 0.0, "witness: fastest setting (pole 0)");
        }
    };
}

// =====================================================================
// C14  dead band, clamps, pole placement
// =====================================================================

// @family prop=C14,C17 name=c14_dead_band macro=c14_dead_band n=6 quick=1,2 thorough=all timeout=1500 stub=1
// @about slice = sample rate as above: processor with arbitrary one-pole coefficients in effect for an arbitrary cached time c in [0,10] (or the power-on marker -1), one set_time(t) for any f32 t in [0, 12]: if |t - c| <= 0.05 (don't-care band 1e-6 for the f32 subtraction) the call is ignored and nothing changes (coefficients bit-identical, time in effect unchanged); otherwise cached_t = t and the new coefficients are a one-pole low-pass with pole in [0,1); t < 2/fs asks tan for exactly the argument new() uses for the fastest response (and that response has pole <= 0.25: an error shrinks below 2^-16 within 8 samples); t > 10 asks for exactly the argument of t = 10
macro_rules! c14_dead_band {
    ($name:ident, $k:expr) => {
        #[kani::proof]
        #[kani::stub(f32::tan, tan_model)]
        fn $name() {
            draw_tan();
            let fs: f32 = RATES[$k];
            // reference requests: the fastest response (new) and t = 10 s, both with concrete arguments
            let mut g10 = GlideProcessor::new(fs);
            let arg_fastest = unsafe { TAN_LAST_ARG };
            g10.set_time(10.0);
            let arg_10s = unsafe { TAN_LAST_ARG };
            draw_tan();
            let mut gp = GlideProcessor::new(fs);
            let b0: f32 = kani::any();
            let a1: f32 = kani::any();
            let old = Coefficients { a1, a2: 0.0, b0, b1: b0, b2: 0.0 };
            kani::assume(legal_range(&old));
            gp.lpf.update_coefficients(old);
            let c: f32 = kani::any();
            kani::assume((c >= 0.0 && c <= 10.0) || c == -1.0);
            gp.cached_t = c;
            let t: f32 = kani::any();
            kani::assume(t >= 0.0 && t <= 12.0);
            gp.set_time(t);
            let new = coeffs_of(&mut gp);
            let d = (t as f64 - c as f64).abs();
            if d <= 0.05 - 1.0e-6 {
                vassert!(gp.cached_t == c && new.a1.to_bits() == old.a1.to_bits() && new.b0.to_bits() == old.b0.to_bits(),
                    "C14/set_time/ignored-within-0.05s-of-time-in-effect");
            }
            if d > 0.05 + 1.0e-6 {
                vassert!(gp.cached_t == t, "C14/set_time/honoured-beyond-0.05s");
                vassert!(legal_range(&new), "C13/set_time/coefficients-are-a-one-pole-lowpass-with-pole-in-[0,1)");
                let arg = unsafe { TAN_LAST_ARG };
                if (t as f64) * (fs as f64) < 2.0 {
                    vassert!(arg.to_bits() == arg_fastest.to_bits(), "C14/set_time/below-two-samples-selects-fastest");
                    vassert!(-new.a1 <= 0.25, "C14/fastest/pole<=0.25-settles-within-8-samples");
                }
                if t > 10.0 {
                    vassert!(arg.to_bits() == arg_10s.to_bits(), "C14/set_time/above-10s-acts-as-10s");
                }
            }
            vcover!(d <= 0.04 && c >= 0.0, "witness: inside the dead band");
            vcover!(d > 0.06 && t > 10.0, "witness: above 10 s");
            vcover!(d > 0.06 && t * fs < 2.0, "witness: below two samples");
        }
    };
}

// @family prop=C14 name=c14_pole_placement macro=c14_pole_placement n=6 quick=1,2 thorough=all timeout=3000 stub=1
// @about slice = sample rate as above: t on the grid k/16 s, k = 1..=160, with at least 100 samples per t (N = t*fs >= 100): after set_time(t) on a fresh processor the pole p = -a1 satisfies 5.298/N <= 1-p and (1-p)/p <= 7.666/N. With the one-pole step response error (1-b0)*p^n (closed form; its single step is c13_step_is_convex_combination) and -ln p in [1-p, (1-p)/p] this gives: covered >= 1 - p^N >= 99.5% after t seconds, and between 1 - p^(N/10) >= 40% and 1 - 0.9686*p^(N/10) <= 55% after t/10 seconds (5.298 = -ln 0.005, 7.666 = -10 ln(0.45/0.9686), 1-b0 >= 0.9686 for N >= 100). tan replaced by its contract (relative width 3e-6)
macro_rules! c14_pole_placement {
    ($name:ident, $k:expr) => {
        #[kani::proof]
        #[kani::stub(f32::tan, tan_model)]
        fn $name() {
            draw_tan();
            let fs: f32 = RATES[$k];
            let mut gp = GlideProcessor::new(fs);
            let k: u16 = kani::any();
            kani::assume(k >= 1 && k <= 160);
            let t = k as f32 / 16.0;
            let n = (k as f64 / 16.0) * fs as f64; // samples per t, exact
            kani::assume(n >= 100.0);
            gp.set_time(t);
            let c = coeffs_of(&mut gp);
            let p = -c.a1 as f64;
            let q = 1.0 - p;
            vassert!(q * n >= 5.298, "C14/pole/>=99.5%-after-t-and->=...:1-p>=5.298/N");
            vassert!(q * n <= 7.666 * p, "C14/pole/<=55%-after-t/10:(1-p)/p<=7.666/N");
            vassert!(c.b0 <= 0.0314, "C14/pole/first-sample-factor:1-b0>=0.9686");
            vcover!(k == 160, "witness: 10 s");
            vcover!(k <= 16, "witness: a time of at most 1 s");
        }
    };
}

// @family prop=C17 name=c17_glide_any_time macro=c17_glide_any_time n=6 quick=0,2 thorough=all timeout=1500 stub=1
// @about slice = sample rate as above: GlideProcessor::new(fs), set_time(t) for ANY finite f32 t >= 0 (subnormals, huge values), then process(x) twice for any finite x with |x| <= 1e6: no panic (the unwrap of the coefficient design never fires: the cutoff is clamped inside [0.1, fs/4]) and finite outputs. tan replaced by its contract
macro_rules! c17_glide_any_time {
    ($name:ident, $k:expr) => {
        #[kani::proof]
        #[kani::stub(f32::tan, tan_model)]
        fn $name() {
            draw_tan();
            let fs: f32 = RATES[$k];
            let mut gp = GlideProcessor::new(fs);
            let t: f32 = kani::any();
            kani::assume(t >= 0.0 && t.is_finite());
            gp.set_time(t);
            let c = coeffs_of(&mut gp);
            vassert!(legal_range(&c), "C13/set_time/coefficients-are-a-one-pole-lowpass-with-pole-in-[0,1)");
            let x: f32 = kani::any();
            kani::assume(x >= -1.0e6 && x <= 1.0e6);
            let y0 = gp.process(x);
            let y1 = gp.process(x);
            vassert!(y0.is_finite() && y1.is_finite(), "C17/glide/finite-output");
            vcover!(t > 1.0e30, "witness: huge time");
            vcover!(t > 0.0 && t < 1.0e-38, "witness: subnormal time");
        }
    };
}

// @family prop=C13,C14 name=c13_history macro=c13_history n=6 quick=1 thorough=1,2 tseeded=0 timeout=1800 stub=1
// @about state handling through the public API only, slice = sample rate: new(fs); set_time(t0) with t0 in {0, 0.001, 0.01, 0.1, 1, 10} (symbolic choice; 0 = glide off); process(x0); process(x1); set_time(t1) (same choices, may be ignored by the dead band); process(x2); process(x3) -- inputs in {-1, -0.5, 0, 0.5, 1}: every returned output lies within the hull of the inputs seen so far and the previous RETURNED output (+- 8 ulp), in particular after the glide was switched off and on again; with a held input the output does not move away from it. tan is replaced here by ONE representative of its contract (the lower envelope), so that the coefficients are concrete per time choice: this harness decides the state handling of process()/set_time() (what is carried over, what a switched-off glide leaves behind), the numeric design is decided for the whole contract by c13_coeffs_legal / c13_weights_sum_to_one / c14_pole_placement
macro_rules! c13_history {
    ($name:ident, $k:expr) => {
        #[kani::proof]
        #[kani::stub(f32::tan, tan_model)]
        fn $name() {
            unsafe { TAN_REPRESENTATIVE = true; }
            let fs: f32 = RATES[$k];
            let times: [f32; 6] = [0.0, 0.001, 0.01, 0.1, 1.0, 10.0];
            let i0: usize = kani::any();
            let i1: usize = kani::any();
            kani::assume(i0 < 6 && i1 < 6);
            let g: [i8; 4] = kani::any();
            kani::assume(g[0] >= -2 && g[0] <= 2 && g[1] >= -2 && g[1] <= 2 && g[2] >= -2 && g[2] <= 2 && g[3] >= -2 && g[3] <= 2);
            let x = [g[0] as f32 / 2.0, g[1] as f32 / 2.0, g[2] as f32 / 2.0, g[3] as f32 / 2.0];
            let tol = 8.0 * 1.1920929e-7;
            let mut gp = GlideProcessor::new(fs);
            gp.set_time(times[i0]);
            let mut lo = 0.0_f32; // range spanned by the initial value 0 and the inputs seen so far
            let mut hi = 0.0_f32;
            let mut prev_out = 0.0_f32;
            let mut prev_in = 0.0_f32;
            let mut n = 0;
            while n < 4 {
                if n == 2 {
                    gp.set_time(times[i1]);
                }
                let xi = x[n];
                let y = gp.process(xi);
                if xi < lo { lo = xi; }
                if xi > hi { hi = xi; }
                vassert!(y >= lo - tol && y <= hi + tol, "C13/history/output-within-range-of-inputs-seen-so-far");
                // one step: within the hull of the new input, the previous input and the previous RETURNED output
                let mut l = if xi < prev_in { xi } else { prev_in };
                if prev_out < l { l = prev_out; }
                let mut h = if xi > prev_in { xi } else { prev_in };
                if prev_out > h { h = prev_out; }
                vassert!(y >= l - tol && y <= h + tol, "C13/history/output-continues-from-previous-returned-output");
                if n > 0 && xi == prev_in {
                    let e1 = xi - prev_out;
                    let e2 = xi - y;
                    if e1 >= 0.0 {
                        vassert!(e2 >= -tol && e2 <= e1 + tol, "C13/history/held-input:monotone-approach-also-across-set_time");
                    } else {
                        vassert!(e2 <= tol && e2 >= e1 - tol, "C13/history/held-input:monotone-approach-also-across-set_time");
                    }
                }
                prev_out = y;
                prev_in = xi;
                n += 1;
            }
            vcover!(i0 == 0 && i1 == 3 && x[1] != 0.0, "witness: glide switched off, then on again");
            vcover!(i0 == 4 && i1 == 0, "witness: glide off in mid-glide");
            vcover!(i0 == i1, "witness: second set_time ignored");
        }
    };
}
