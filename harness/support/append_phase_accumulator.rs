// ---- appended by /verif (cfg(kani) only): access to the private counter fields ----
#[cfg(kani)]
impl<const TOTAL_NUM_BITS: u32, const NUM_INDEX_BITS: u32>
    PhaseAccumulator<TOTAL_NUM_BITS, NUM_INDEX_BITS>
{
    /// Build a counter in an arbitrary state (harnesses assume the invariant they need).
    pub(crate) fn verif_from_parts(
        sample_rate_hz: f32,
        accumulator: u32,
        last_accumulator: u32,
        increment: u32,
        rolled_over: bool,
    ) -> Self {
        let mut pa = Self::new(sample_rate_hz);
        pa.accumulator = accumulator;
        pa.last_accumulator = last_accumulator;
        pa.increment = increment;
        pa.rolled_over = rolled_over;
        pa
    }
    pub(crate) fn verif_acc(&self) -> u32 {
        self.accumulator
    }
    pub(crate) fn verif_last(&self) -> u32 {
        self.last_accumulator
    }
    pub(crate) fn verif_inc(&self) -> u32 {
        self.increment
    }
    pub(crate) fn verif_flag(&self) -> bool {
        self.rolled_over
    }
    pub(crate) fn verif_mask(&self) -> u32 {
        self.rollover_mask
    }
    pub(crate) fn verif_fs(&self) -> f32 {
        self.sample_rate_hz
    }
}
