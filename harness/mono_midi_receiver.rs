// Harnesses anchored in src/mono_midi_receiver.rs (mounted as `mono_midi_receiver::verif`).
//
// Reference model (written from the property texts C04/C05/C06/C18 and the MIDI 1.0 wire
// format, not from the code): `Model<K>` = receiver outputs + ordered list of outstanding
// note-ons (at most K entries); `RefDecoder` = a MIDI 1.0 running-status byte decoder.
use super::*;

#[derive(Clone, Copy)]
struct Model<const K: usize> {
    channel: u8,
    note_num: u8,
    velocity: f32,
    pitch_bend: f32,
    mod_wheel: f32,
    volume: f32,
    vcf_cutoff: f32,
    vcf_resonance: f32,
    portamento_time: f32,
    portamento_enabled: bool,
    sustain_enabled: bool,
    gate: bool,
    rising: bool,
    falling: bool,
    retrig: bool,
    prio: u8, // 0 last, 1 high, 2 low
    notes: [u8; K],
    len: usize,
}

#[derive(Clone, Copy, PartialEq)]
enum Msg {
    NoteOn(u8, u8, u8),  // channel, note, velocity
    NoteOff(u8, u8),     // channel, note
    Cc(u8, u8, u8),      // channel, controller, value
    Bend(u8, u8, u8),    // channel, lsb, msb
    Other,
}

impl<const K: usize> Model<K> {
    /// any model state satisfying Inv_midi with at most `max_len` outstanding notes
    fn any(max_len: usize) -> Self {
        let m = Model::<K> {
            channel: kani::any(),
            note_num: kani::any(),
            velocity: kani::any(),
            pitch_bend: kani::any(),
            mod_wheel: kani::any(),
            volume: kani::any(),
            vcf_cutoff: kani::any(),
            vcf_resonance: kani::any(),
            portamento_time: kani::any(),
            portamento_enabled: kani::any(),
            sustain_enabled: kani::any(),
            gate: kani::any(),
            rising: kani::any(),
            falling: kani::any(),
            retrig: kani::any(),
            prio: kani::any(),
            notes: kani::any(),
            len: kani::any(),
        };
        kani::assume(m.channel <= 15 && m.note_num <= 127 && m.prio <= 2);
        kani::assume(m.len <= max_len && max_len <= K);
        kani::assume(m.gate == (m.len > 0)); // gate <=> a note-on is outstanding
        kani::assume(!m.rising || m.gate); // a pending rising edge implies gate high
        kani::assume(!m.falling || !m.gate); // a pending falling edge implies gate low
        let mut i = 0;
        while i < K {
            kani::assume(m.notes[i] <= 127);
            i += 1;
        }
        m
    }

    fn select(&self) -> u8 {
        // most recent / highest / lowest outstanding note
        let mut best = self.notes[0];
        let mut i = 1;
        while i < K {
            if i < self.len {
                let n = self.notes[i];
                best = match self.prio {
                    0 => n,
                    1 => if n > best { n } else { best },
                    _ => if n < best { n } else { best },
                };
            }
            i += 1;
        }
        best
    }

    fn drop_gate(&mut self) {
        if self.gate {
            self.falling = true; // exactly one falling edge per true->false change
        }
        self.gate = false;
        self.rising = false; // a rising edge not yet read is void once the gate dropped
    }

    fn note_off(&mut self, note: u8) {
        // cancels every outstanding note-on of that number
        let mut w = 0;
        let mut i = 0;
        while i < K {
            if i < self.len && self.notes[i] != note {
                self.notes[w] = self.notes[i];
                w += 1;
            }
            i += 1;
        }
        self.len = w;
        if self.len == 0 {
            self.drop_gate(); // keeps the last selected note
        } else {
            self.note_num = self.select();
        }
    }

    /// apply one decoded message (only the listened channel is applied)
    fn apply(&mut self, m: Msg) {
        match m {
            Msg::NoteOn(ch, note, vel) if ch == self.channel => {
                if vel == 0 {
                    self.note_off(note);
                } else {
                    self.velocity = vel as f32 / 127.0;
                    if self.len < K {
                        self.notes[self.len] = note;
                        self.len += 1;
                    }
                    self.note_num = self.select();
                    if self.retrig || !self.gate {
                        self.rising = true;
                    }
                    self.gate = true;
                    self.falling = false; // a new note-on voids an unread falling edge
                }
            }
            Msg::NoteOff(ch, note) if ch == self.channel => self.note_off(note),
            Msg::Bend(ch, lsb, msb) if ch == self.channel => {
                let v = (msb as i32) * 128 + lsb as i32 - 8192; // assembled LSB first
                let f = v as f32 / if v > 0 { 8191.0 } else { 8192.0 };
                self.pitch_bend = if f < -1.0 { -1.0 } else if f > 1.0 { 1.0 } else { f };
            }
            Msg::Cc(ch, cc, val) if ch == self.channel => {
                let x = val as f32 / 127.0;
                match cc {
                    1 => self.mod_wheel = x,
                    7 => self.volume = x,
                    71 => self.vcf_cutoff = x,
                    74 => self.vcf_resonance = x,
                    5 => self.portamento_time = x,
                    65 => self.portamento_enabled = val >= 64,
                    64 => self.sustain_enabled = val >= 64,
                    121 => {
                        // power-on defaults of every controller and the pitch bend
                        self.pitch_bend = 0.0;
                        self.mod_wheel = 0.0;
                        self.volume = 0.0;
                        self.vcf_cutoff = 0.0;
                        self.vcf_resonance = 0.0;
                        self.portamento_time = 0.0;
                        self.portamento_enabled = true;
                        self.sustain_enabled = true;
                    }
                    123 => {
                        self.len = 0;
                        self.drop_gate();
                    }
                    _ => (),
                }
            }
            _ => (),
        }
    }

    /// build the real receiver in the same state (fresh parser)
    fn to_real(&self) -> MonoMidiReceiver {
        let mut held: Vec<u8, HELD_DOWN_NOTE_BUFFER_LEN> = Vec::new();
        let mut i = 0;
        while i < K {
            if i < self.len {
                held.push(self.notes[i]).ok();
            }
            i += 1;
        }
        MonoMidiReceiver {
            parser: MidiByteStreamParser::new(),
            channel: self.channel,
            note_num: self.note_num,
            velocity: self.velocity,
            pitch_bend: self.pitch_bend,
            mod_wheel: self.mod_wheel,
            volume: self.volume,
            vcf_cutoff: self.vcf_cutoff,
            vcf_resonance: self.vcf_resonance,
            portamento_time: self.portamento_time,
            portamento_enabled: self.portamento_enabled,
            sustain_enabled: self.sustain_enabled,
            gate: self.gate,
            rising_gate: self.rising,
            falling_gate: self.falling,
            retrigger_mode: if self.retrig { RetriggerMode::AllowRetrigger } else { RetriggerMode::NoRetrigger },
            note_priority: match self.prio {
                0 => NotePriority::Last,
                1 => NotePriority::High,
                _ => NotePriority::Low,
            },
            held_down_notes: held,
        }
    }

    fn same_controllers(&self, r: &MonoMidiReceiver) -> bool {
        self.pitch_bend.to_bits() == r.pitch_bend().to_bits()
            && self.mod_wheel.to_bits() == r.mod_wheel().to_bits()
            && self.volume.to_bits() == r.volume().to_bits()
            && self.vcf_cutoff.to_bits() == r.vcf_cutoff().to_bits()
            && self.vcf_resonance.to_bits() == r.vcf_resonance().to_bits()
            && self.portamento_time.to_bits() == r.portamento_time().to_bits()
            && self.portamento_enabled == r.portamento_enabled()
            && self.sustain_enabled == r.sustain_enabled()
    }

    fn same_list(&self, r: &MonoMidiReceiver) -> bool {
        if r.held_down_notes.len() != self.len {
            return false;
        }
        let mut ok = true;
        let mut i = 0;
        while i < K {
            if i < self.len && r.held_down_notes[i] != self.notes[i] {
                ok = false;
            }
            i += 1;
        }
        ok
    }
}

fn feed3(r: &mut MonoMidiReceiver, a: u8, b: u8, c: u8) {
    r.parse(a);
    r.parse(b);
    r.parse(c);
}

// =====================================================================
// C04 / C05  inductive step per message kind, listened channel
// =====================================================================

// @family prop=C04,C05,C17 name=c04_note_on_step macro=midi_step_note_on n=33 quick=8,32 thorough=16,32 tseeded=0 plus=3 timeout=1800
// @about slice K = bound on outstanding note-ons (note-on: K=8 and K=32 in both tiers, so the 32nd outstanding note-on is covered; note-off: K=8 quick, K=16 thorough -- K=32 did not finish in 50 min; the property bounds it at 32): any Inv_midi receiver state (held list of length < K with any contents, gate <=> list non-empty, pending edges consistent, any priority, any retrigger mode, any channel, every output field symbolic), one note-on event (any note, any velocity 1..=127) delivered to the real handler handle_note_on (the byte-level dispatch parse() -> handler is decided by the c06_* harnesses): afterwards gate, note_num (most recent/highest/lowest outstanding), velocity (v/127), held list, rising and falling latches equal the reference model; rising => gate, falling => !gate
macro_rules! midi_step_note_on {
    ($name:ident, $k:expr, $u:expr) => {
        #[kani::proof]
        #[kani::unwind($u)]
        fn $name() {
            const K: usize = $k;
            let mut m = Model::<K>::any(K - 1);
            let mut r = m.to_real();
            let note: u8 = kani::any();
            let vel: u8 = kani::any();
            kani::assume(note <= 127 && vel >= 1 && vel <= 127);
            let gate_before = m.gate;
            r.handle_note_on(note, vel.into());
            m.apply(Msg::NoteOn(m.channel, note, vel));
            vassert!(r.gate() && m.gate, "C04/note-on/gate-high");
            vassert!(r.gate() == (r.held_down_notes.len() > 0), "C04/note-on/gate<=>list-non-empty");
            vassert!(m.same_list(&r), "C04/note-on/outstanding-list");
            vassert!(r.note_num() == m.note_num, "C04/note-on/note-by-priority");
            vassert!(r.velocity().to_bits() == m.velocity.to_bits(), "C04/note-on/velocity-is-v/127");
            vassert!(r.rising_gate == m.rising, "C05/note-on/rising-latch");
            vassert!(r.falling_gate == m.falling && !r.falling_gate, "C05/note-on/falling-latch-cleared");
            vassert!(!r.rising_gate || r.gate, "C05/note-on/rising=>gate");
            vassert!(m.same_controllers(&r), "C04/note-on/controllers-untouched");
            vcover!(gate_before && m.retrig, "witness: retrigger while held");
            vcover!(gate_before && !m.retrig && !m.rising, "witness: legato note-on without a new edge");
            vcover!(!gate_before, "witness: gate raised");
            vcover!(m.len == K, "witness: list at its bound");
        }
    };
}

// @family prop=C04,C05,C17 name=c04_note_off_step macro=midi_step_note_off n=33 quick=8 thorough=16 tseeded=0 plus=3 timeout=1800
// @about slice K as above: any Inv_midi state with held list of length <= K, one note-off event (any note incl. notes that are not held) delivered to the real handler handle_note_off (reached by note-off messages and by note-on with velocity 0, see c06_*): every outstanding note-on of that number is cancelled, gate drops iff nothing is left, the last note is kept after everything is released, falling latch set iff the gate went true->false (a stray note-off with nothing held sets nothing), rising latch cleared when the gate drops
macro_rules! midi_step_note_off {
    ($name:ident, $k:expr, $u:expr) => {
        #[kani::proof]
        #[kani::unwind($u)]
        fn $name() {
            const K: usize = $k;
            let mut m = Model::<K>::any(K);
            let mut r = m.to_real();
            let note: u8 = kani::any();
            kani::assume(note <= 127);
            let gate_before = m.gate;
            let falling_before = m.falling;
            r.handle_note_off(note);
            m.apply(Msg::NoteOff(m.channel, note));
            vassert!(r.gate() == m.gate, "C04/note-off/gate-tracks-outstanding-notes");
            vassert!(r.gate() == (r.held_down_notes.len() > 0), "C04/note-off/gate<=>list-non-empty");
            vassert!(m.same_list(&r), "C04/note-off/outstanding-list");
            vassert!(r.note_num() == m.note_num, "C04/note-off/note-by-priority-or-kept");
            vassert!(r.velocity().to_bits() == m.velocity.to_bits(), "C04/note-off/velocity-untouched");
            vassert!(r.rising_gate == m.rising, "C05/note-off/rising-latch");
            vassert!(r.falling_gate == m.falling, "C05/note-off/falling-latch");
            if !gate_before {
                vassert!(r.falling_gate == falling_before, "C05/note-off/no-falling-edge-without-gate-change");
            }
            vassert!(!r.rising_gate || r.gate, "C05/note-off/rising=>gate");
            vassert!(!r.falling_gate || !r.gate, "C05/note-off/falling=>!gate");
            vassert!(m.same_controllers(&r), "C04/note-off/controllers-untouched");
            vcover!(!gate_before, "witness: note-off with nothing held");
            vcover!(gate_before && !r.gate, "witness: last note released");
            vcover!(gate_before && r.gate && r.held_down_notes.len() + 2 <= K, "witness: duplicate note-ons cancelled together");
            vcover!(m.len + 1 == K, "witness: list near its bound");
        }
    };
}

// @family prop=C04,C05,C17 name=c04_all_notes_off_step macro=midi_step_anoff n=33 quick=8 thorough=32 tseeded=0 plus=3 timeout=3000 stub=1
// @about slice K as above: any Inv_midi state, one controller-123 message (any value) on the listened channel: list emptied, gate low, the last note kept, falling latch set iff the gate was high (an unread falling edge survives), rising latch cleared, controllers untouched (the controller arm of parse() is real code; the note handlers, which this message never reaches, are stubbed to keep the other match arms small)
macro_rules! midi_step_anoff {
    ($name:ident, $k:expr, $u:expr) => {
        #[kani::proof]
        #[kani::unwind($u)]
        #[kani::stub(MonoMidiReceiver::handle_note_on, stub_handle_note_on)]
        #[kani::stub(MonoMidiReceiver::handle_note_off, stub_handle_note_off)]
        fn $name() {
            const K: usize = $k;
            let mut m = Model::<K>::any(K);
            let mut r = m.to_real();
            let val: u8 = kani::any();
            kani::assume(val <= 127);
            let gate_before = m.gate;
            let falling_before = m.falling;
            let note_before = m.note_num;
            feed3(&mut r, 0xB0 | m.channel, 123, val);
            m.apply(Msg::Cc(m.channel, 123, val));
            vassert!(!r.gate() && r.held_down_notes.len() == 0, "C04/all-notes-off/gate-low-list-empty");
            vassert!(r.note_num() == note_before, "C04/all-notes-off/keeps-last-note");
            vassert!(r.falling_gate == (gate_before || falling_before), "C05/all-notes-off/falling-edge-iff-gate-was-high");
            vassert!(r.falling_gate == m.falling && r.rising_gate == m.rising, "C05/all-notes-off/latches");
            vassert!(!r.rising_gate, "C05/all-notes-off/rising-cleared");
            vassert!(m.same_controllers(&r) && r.velocity().to_bits() == m.velocity.to_bits(), "C04/all-notes-off/controllers-untouched");
            vcover!(gate_before, "witness: gate was high");
            vcover!(!gate_before && falling_before, "witness: unread falling edge");
        }
    };
}

// @harness prop=C05,C04 tier=quick timeout=600
// @about any Inv_midi state (list <= 4): rising_gate() / falling_gate() return the latch and clear only that latch (so each edge is reported exactly once); set_retrigger_mode / set_note_priority change only the mode; gate()/note_num()/velocity() are pure reads
#[kani::proof]
#[kani::unwind(7)]
fn c05_edge_getters_and_mode_setters() {
    let m = Model::<4>::any(4);
    let mut r = m.to_real();
    let which: u8 = kani::any();
    kani::assume(which < 4);
    let mut want = m;
    match which {
        0 => {
            let got = r.rising_gate();
            vassert!(got == m.rising, "C05/rising_gate/returns-latch");
            vassert!(!r.rising_gate(), "C05/rising_gate/true-only-once");
            want.rising = false;
        }
        1 => {
            let got = r.falling_gate();
            vassert!(got == m.falling, "C05/falling_gate/returns-latch");
            vassert!(!r.falling_gate(), "C05/falling_gate/true-only-once");
            want.falling = false;
        }
        2 => {
            let on: bool = kani::any();
            r.set_retrigger_mode(if on { RetriggerMode::AllowRetrigger } else { RetriggerMode::NoRetrigger });
            want.retrig = on;
            vassert!((r.retrigger_mode == RetriggerMode::AllowRetrigger) == on, "C05/set_retrigger_mode/stored");
        }
        _ => {
            let p: u8 = kani::any();
            kani::assume(p <= 2);
            r.set_note_priority(match p { 0 => NotePriority::Last, 1 => NotePriority::High, _ => NotePriority::Low });
            want.prio = p;
            let got = match r.note_priority { NotePriority::Last => 0, NotePriority::High => 1, NotePriority::Low => 2 };
            vassert!(got == p, "C05/set_note_priority/stored");
        }
    }
    vassert!(r.gate() == want.gate && r.note_num() == want.note_num && r.velocity().to_bits() == want.velocity.to_bits()
        && r.rising_gate == want.rising && r.falling_gate == want.falling && want.same_list(&r)
        && want.same_controllers(&r) && r.channel == want.channel, "C05/getters-setters/frame");
    vcover!(which == 0 && m.rising, "witness: pending rising edge read");
    vcover!(which == 1 && m.falling, "witness: pending falling edge read");
}

// =====================================================================
// C06  byte-stream framing: MIDI 1.0 reference decoder, differential
// =====================================================================

#[derive(Clone, Copy)]
struct RefDecoder {
    status: u8, // running status (0x80..=0xEF) or 0 when none
    have_d1: bool,
    d1: u8,
}

impl RefDecoder {
    fn new() -> Self {
        RefDecoder { status: 0, have_d1: false, d1: 0 }
    }
    fn feed(&mut self, b: u8) -> Msg {
        if b >= 0xF8 {
            return Msg::Other; // system real-time: transparent, anywhere
        }
        if b >= 0xF0 {
            // system common / exclusive: cancels running status, aborts a partial message;
            // their own data bytes (and sysex payload) are then ignored as data without status
            self.status = 0;
            self.have_d1 = false;
            return Msg::Other;
        }
        if b >= 0x80 {
            self.status = b; // new status aborts a partial message
            self.have_d1 = false;
            return Msg::Other;
        }
        if self.status == 0 {
            return Msg::Other; // data byte without status
        }
        let kind = self.status & 0xF0;
        let ch = self.status & 0x0F;
        if kind == 0xC0 || kind == 0xD0 {
            return Msg::Other; // one-data-byte messages, unsupported
        }
        if !self.have_d1 {
            self.have_d1 = true;
            self.d1 = b;
            return Msg::Other;
        }
        self.have_d1 = false; // running status stays
        match kind {
            0x80 => Msg::NoteOff(ch, self.d1),
            0x90 => Msg::NoteOn(ch, self.d1, b),
            0xB0 => Msg::Cc(ch, self.d1, b),
            0xE0 => Msg::Bend(ch, self.d1, b),
            _ => Msg::Other, // 0xA0 poly pressure: unsupported
        }
    }
}

fn same_all<const K: usize>(m: &Model<K>, r: &MonoMidiReceiver) -> bool {
    r.gate() == m.gate
        && r.note_num() == m.note_num
        && r.velocity().to_bits() == m.velocity.to_bits()
        && r.rising_gate == m.rising
        && r.falling_gate == m.falling
        && m.same_controllers(r)
        && m.same_list(r)
}

// ---- abstract note handlers for the framing harnesses (Kani stubs, -Z stubbing) ----
// The byte-level question of C06 is: which handler runs, with which arguments, after which byte.
// What a handler does to the note state is decided by the c04_*_step harnesses from any state.
// The stubs log every call in the held-note list (note-on: note, note-off: note|0x80) so that a
// missing, extra, reordered or mis-argumented call is visible; the reference logs the same way.
fn stub_handle_note_on(r: &mut MonoMidiReceiver, note: u8, velocity: Value7) {
    r.held_down_notes.push(note).ok();
    r.velocity = value7_to_f32(velocity);
}
fn stub_handle_note_off(r: &mut MonoMidiReceiver, note: u8) {
    r.held_down_notes.push(note | 0x80).ok();
}

#[derive(Clone, Copy)]
struct LogModel<const L: usize> {
    channel: u8,
    ctl: Model<1>, // controllers + pitch bend + note-state flags touched by CC123
    log: [u8; L],
    n: usize,
}

impl<const L: usize> LogModel<L> {
    fn push(&mut self, b: u8) {
        if self.n < L {
            self.log[self.n] = b;
        }
        self.n += 1;
    }
    fn apply(&mut self, m: Msg) {
        match m {
            Msg::NoteOn(ch, note, vel) if ch == self.channel => {
                if vel == 0 {
                    self.push(note | 0x80);
                } else {
                    self.push(note);
                    self.ctl.velocity = vel as f32 / 127.0;
                }
            }
            Msg::NoteOff(ch, note) if ch == self.channel => self.push(note | 0x80),
            Msg::Cc(ch, 123, _) if ch == self.channel => {
                // the real arm clears the list; with the logging stubs the gate is never raised, so
                // there is no edge to report here (the CC123 edge rule is decided in c04_all_notes_off_step)
                self.n = 0;
            }
            other => self.ctl.apply(other),
        }
    }
    fn same(&self, r: &MonoMidiReceiver) -> bool {
        if r.held_down_notes.len() != self.n || self.n > L {
            return false;
        }
        let mut ok = true;
        let mut i = 0;
        while i < L {
            if i < self.n && r.held_down_notes[i] != self.log[i] {
                ok = false;
            }
            i += 1;
        }
        ok && self.ctl.same_controllers(r) && r.velocity().to_bits() == self.ctl.velocity.to_bits()
            && r.gate() == self.ctl.gate && r.rising_gate == self.ctl.rising && r.falling_gate == self.ctl.falling
            && r.note_num() == self.ctl.note_num
    }
}

// @family prop=C06,C17,C04,C05 name=c06_byte_stream macro=c06_byte_stream n=8 quick=4 thorough=7 tseeded=0 plus=4 timeout=3000 stub=1
// @about slice N = number of symbolic bytes: any listened channel, every controller output symbolic, gate low; the parser is first driven into an arbitrary state by a symbolic 2-byte prefix fed to both the receiver and the MIDI 1.0 reference decoder; then N bytes, each any of 0..=255, are fed one at a time through the real parse() and after EVERY byte the log of note-handler calls (which handler, which note, in which order; velocity), pitch bend, all 7 controllers and the note-state fields equal those of the reference (running status, status aborts partial message, 0xF0..0xF7 cancel running status, sysex payload ignored, 0xF8..0xFF transparent anywhere, other channels and unsupported types ignored). Stubs: handle_note_on / handle_note_off replaced by call loggers (their effect on the note state is decided from any state by c04_*_step). Kani's panic/overflow/index checks cover 'never panics'
macro_rules! c06_byte_stream {
    ($name:ident, $n:expr, $u:expr) => {
        #[kani::proof]
        #[kani::unwind($u)]
        #[kani::stub(MonoMidiReceiver::handle_note_on, stub_handle_note_on)]
        #[kani::stub(MonoMidiReceiver::handle_note_off, stub_handle_note_off)]
        fn $name() {
            const N: usize = $n;
            let mut ctl = Model::<1>::any(0);
            kani::assume(!ctl.falling && !ctl.rising);
            let mut r = ctl.to_real();
            let mut m = LogModel::<{ N + 2 }> { channel: ctl.channel, ctl, log: [0; N + 2], n: 0 };
            let mut d = RefDecoder::new();
            let p0: u8 = kani::any();
            let p1: u8 = kani::any();
            let mm0 = d.feed(p0);
            m.apply(mm0);
            r.parse(p0);
            let mm1 = d.feed(p1);
            m.apply(mm1);
            r.parse(p1);
            vassert!(m.same(&r), "C06/prefix/outputs-equal-reference");
            let bytes: [u8; N] = kani::any();
            let mut i = 0;
            let mut saw_rt_inside = false;
            let mut saw_foreign = false;
            let mut saw_abort = false;
            while i < N {
                let b = bytes[i];
                if b >= 0xF8 && d.have_d1 {
                    saw_rt_inside = true;
                }
                if b >= 0x80 && b < 0xF0 && d.have_d1 {
                    saw_abort = true;
                }
                if b >= 0x80 && b < 0xF0 && (b & 0x0F) != m.channel {
                    saw_foreign = true;
                }
                let msg = d.feed(b);
                m.apply(msg);
                r.parse(b);
                vassert!(m.same(&r), "C06/after-every-byte/outputs-equal-midi-1.0-reference");
                i += 1;
            }
            vcover!(saw_rt_inside && m.n > 0, "witness: real-time byte between the bytes of a note message");
            vcover!(saw_foreign, "witness: foreign-channel status");
            vcover!(saw_abort, "witness: status byte aborts a partial message");
            vcover!(m.n >= 2, "witness: two note events (running status)");
        }
    };
}

// @harness prop=C06,C04,C05 tier=thorough timeout=3000
// @about end-to-end cross-check with the REAL handlers: any listened channel, any Inv_midi state with <= 2 outstanding notes, one complete 3-byte message of any supported kind (note-on incl. velocity 0, note-off, controller, pitch bend) on ANY channel through a fresh parser: every observable output equals the reference model (message applied iff it is on the listened channel; note-on with velocity 0 acts as note-off)
#[kani::proof]
#[kani::unwind(7)]
fn c06_dispatch_end_to_end() {
    let mut m = Model::<4>::any(2);
    let mut r = m.to_real();
    let kind: u8 = kani::any();
    let ch: u8 = kani::any();
    let a: u8 = kani::any();
    let b: u8 = kani::any();
    kani::assume(kind < 4 && ch <= 15 && a <= 127 && b <= 127);
    let (st, msg) = match kind {
        0 => (0x90, Msg::NoteOn(ch, a, b)),
        1 => (0x80, Msg::NoteOff(ch, a)),
        2 => (0xB0, Msg::Cc(ch, a, b)),
        _ => (0xE0, Msg::Bend(ch, a, b)),
    };
    feed3(&mut r, st | ch, a, b);
    m.apply(msg);
    vassert!(same_all(&m, &r), "C06/dispatch/outputs-equal-reference-model");
    vcover!(kind == 0 && b == 0 && ch == m.channel && !m.gate, "witness: velocity-0 note-on released the last note");
    vcover!(kind == 0 && ch != m.channel, "witness: foreign note-on");
    vcover!(kind == 2 && a == 123 && ch == m.channel, "witness: all notes off");
    vcover!(kind == 3 && ch == m.channel, "witness: pitch bend");
}

// @harness prop=C06 tier=quick timeout=1200 stub=1
// @about channel isolation and unsupported types: any Inv_midi state (<= 2 notes), any complete 3-byte channel message whose channel differs from the listened one, or any poly-pressure (0xA0) message, or any 2-byte program-change / channel-pressure message on any channel: no observable output changes
#[kani::proof]
#[kani::unwind(6)]
#[kani::stub(MonoMidiReceiver::handle_note_on, stub_handle_note_on)]
#[kani::stub(MonoMidiReceiver::handle_note_off, stub_handle_note_off)]
fn c06_foreign_and_unsupported_messages_change_nothing() {
    let m = Model::<4>::any(2);
    let mut r = m.to_real();
    let st: u8 = kani::any();
    let a: u8 = kani::any();
    let b: u8 = kani::any();
    kani::assume(st >= 0x80 && st < 0xF0 && a <= 127 && b <= 127);
    let kind = st & 0xF0;
    let foreign = (st & 0x0F) != m.channel;
    kani::assume(foreign || kind == 0xA0 || kind == 0xC0 || kind == 0xD0);
    r.parse(st);
    r.parse(a);
    r.parse(b);
    vassert!(same_all(&m, &r), "C06/foreign-channel-or-unsupported-type/no-output-changes");
    vcover!(foreign && kind == 0x90 && b > 0, "witness: foreign note-on");
    vcover!(!foreign && kind == 0xC0, "witness: program change on the listened channel");
    vcover!(foreign && kind == 0xB0 && a == 123, "witness: foreign all-notes-off");
}

// =====================================================================
// C18  controllers and pitch bend
// =====================================================================

// @harness prop=C18 tier=quick timeout=1200 stub=1
// @about any Inv_midi state (<= 2 notes, every controller output symbolic), any listened channel, one complete controller message with any controller number 0..=127 and any value 0..=127: afterwards every output equals the reference routing table (1,7,71,74,5 -> value/127 in f32; 65,64 -> value >= 64; 121 -> all eight defaults incl. pitch bend; 123 -> note state only; every other number changes nothing)
#[kani::proof]
#[kani::unwind(6)]
#[kani::stub(MonoMidiReceiver::handle_note_on, stub_handle_note_on)]
#[kani::stub(MonoMidiReceiver::handle_note_off, stub_handle_note_off)]
fn c18_controller_routing() {
    let mut m = Model::<4>::any(2);
    let mut r = m.to_real();
    let cc: u8 = kani::any();
    let val: u8 = kani::any();
    kani::assume(cc <= 127 && val <= 127);
    let before = m;
    feed3(&mut r, 0xB0 | m.channel, cc, val);
    m.apply(Msg::Cc(m.channel, cc, val));
    if cc == 123 {
        // all-notes-off touches note state only (that part is C04/C05's c04_all_notes_off_step)
        vassert!(m.same_controllers(&r) && r.velocity().to_bits() == m.velocity.to_bits(), "C18/cc/outputs-equal-routing-table");
    } else {
        vassert!(same_all(&m, &r), "C18/cc/outputs-equal-routing-table");
    }
    let x = val as f32 / 127.0;
    match cc {
        1 => vassert!(r.mod_wheel() == x, "C18/cc1/mod-wheel"),
        7 => vassert!(r.volume() == x, "C18/cc7/volume"),
        71 => vassert!(r.vcf_cutoff() == x, "C18/cc71/cutoff"),
        74 => vassert!(r.vcf_resonance() == x, "C18/cc74/resonance"),
        5 => vassert!(r.portamento_time() == x, "C18/cc5/portamento-time"),
        65 => vassert!(r.portamento_enabled() == (val >= 64), "C18/cc65/portamento-switch"),
        64 => vassert!(r.sustain_enabled() == (val >= 64), "C18/cc64/sustain-switch"),
        121 => vassert!(r.pitch_bend() == 0.0 && r.mod_wheel() == 0.0 && r.volume() == 0.0 && r.vcf_cutoff() == 0.0
            && r.vcf_resonance() == 0.0 && r.portamento_time() == 0.0 && r.portamento_enabled() && r.sustain_enabled(),
            "C18/cc121/restores-power-on-defaults"),
        123 => vassert!(before.same_controllers(&r), "C18/cc123/touches-no-controller"),
        _ => vassert!(same_all(&before, &r), "C18/other-cc/changes-nothing"),
    }
    vcover!(cc == 121, "witness: reset all controllers");
    vcover!(cc == 74 && val == 127, "witness: resonance full");
    vcover!(cc == 2, "witness: unsupported controller");
}

// @harness prop=C18 tier=quick timeout=600 stub=1
// @about all 128 values v (and v+1): value/127 scaling is 0.0 at 0, 1.0 at 127, strictly increasing, in [0,1]; power-on defaults of a new receiver: all controllers 0.0, both switches on, pitch bend 0.0
#[kani::proof]
#[kani::unwind(4)]
#[kani::stub(MonoMidiReceiver::handle_note_on, stub_handle_note_on)]
#[kani::stub(MonoMidiReceiver::handle_note_off, stub_handle_note_off)]
fn c18_value_scaling_monotone() {
    let ch: u8 = kani::any();
    kani::assume(ch <= 15);
    let v: u8 = kani::any();
    kani::assume(v <= 126);
    let mut a = MonoMidiReceiver::new(ch);
    let mut b = MonoMidiReceiver::new(ch);
    vassert!(a.mod_wheel() == 0.0 && a.volume() == 0.0 && a.vcf_cutoff() == 0.0 && a.vcf_resonance() == 0.0
        && a.portamento_time() == 0.0 && a.pitch_bend() == 0.0 && a.portamento_enabled() && a.sustain_enabled()
        && !a.gate() && a.note_num() == 0 && a.velocity() == 0.0, "C18/new/power-on-defaults");
    feed3(&mut a, 0xB0 | ch, 1, v);
    feed3(&mut b, 0xB0 | ch, 1, v + 1);
    vassert!(a.mod_wheel() < b.mod_wheel(), "C18/value/strictly-increasing");
    vassert!(a.mod_wheel() >= 0.0 && b.mod_wheel() <= 1.0, "C18/value/in-[0,1]");
    if v == 0 {
        vassert!(a.mod_wheel() == 0.0, "C18/value/0->0.0");
    }
    if v == 126 {
        vassert!(b.mod_wheel() == 1.0, "C18/value/127->1.0");
    }
    vcover!(v == 0, "witness: 0");
    vcover!(v == 126, "witness: 126/127");
}

// @harness prop=C18 tier=quick timeout=900 stub=1
// @about all 16384 pitch-bend values (lsb, msb) and their successors, any listened channel, through parse(): 0 -> -1.0, 8192 -> exactly 0.0, 16383 -> +1.0, strictly increasing in msb*128+lsb (LSB is the first data byte), within [-1,1]; the same message on another channel changes nothing
#[kani::proof]
#[kani::unwind(4)]
#[kani::stub(MonoMidiReceiver::handle_note_on, stub_handle_note_on)]
#[kani::stub(MonoMidiReceiver::handle_note_off, stub_handle_note_off)]
fn c18_pitch_bend() {
    let ch: u8 = kani::any();
    kani::assume(ch <= 15);
    let v: u16 = kani::any();
    kani::assume(v <= 16382);
    let w = v + 1;
    let mut a = MonoMidiReceiver::new(ch);
    let mut b = MonoMidiReceiver::new(ch);
    feed3(&mut a, 0xE0 | ch, (v & 0x7f) as u8, (v >> 7) as u8);
    feed3(&mut b, 0xE0 | ch, (w & 0x7f) as u8, (w >> 7) as u8);
    vassert!(a.pitch_bend() < b.pitch_bend(), "C18/pitch-bend/strictly-increasing-in-14-bit-value");
    vassert!(a.pitch_bend() >= -1.0 && b.pitch_bend() <= 1.0, "C18/pitch-bend/in-[-1,1]");
    if v == 0 {
        vassert!(a.pitch_bend() == -1.0, "C18/pitch-bend/0->-1.0");
    }
    if v == 8192 {
        vassert!(a.pitch_bend() == 0.0, "C18/pitch-bend/8192->0.0-exactly");
    }
    if w == 16383 {
        vassert!(b.pitch_bend() == 1.0, "C18/pitch-bend/16383->+1.0");
    }
    let other: u8 = kani::any();
    kani::assume(other <= 15 && other != ch);
    let mut c = MonoMidiReceiver::new(ch);
    feed3(&mut c, 0xE0 | other, (v & 0x7f) as u8, (v >> 7) as u8);
    vassert!(c.pitch_bend() == 0.0, "C18/pitch-bend/other-channel-ignored");
    vcover!(v == 8192, "witness: centre");
    vcover!(v == 0, "witness: minimum");
    vcover!(w == 16383, "witness: maximum");
}

// =====================================================================
// C20  channels above 15 act as 15
// =====================================================================

// @harness prop=C20 tier=quick timeout=600 stub=1
// @about all 256 u8 channel arguments c: MonoMidiReceiver::new(c) listens on min(c,15): a note-on on channel min(c,15) reaches the note-on handler (stubbed by a call logger), the same note-on on any other channel does not, and the receiver equals field by field the one built with min(c,15)
#[kani::proof]
#[kani::unwind(4)]
#[kani::stub(MonoMidiReceiver::handle_note_on, stub_handle_note_on)]
#[kani::stub(MonoMidiReceiver::handle_note_off, stub_handle_note_off)]
fn c20_channel_above_15_acts_as_15() {
    let c: u8 = kani::any();
    let want = if c <= 15 { c } else { 15 };
    let mut a = MonoMidiReceiver::new(c);
    let b = MonoMidiReceiver::new(want);
    vassert!(a.channel == want && a.channel == b.channel, "C20/channel/clamped-to-0..=15");
    vassert!(a.parser == b.parser && a.note_num == b.note_num && a.gate == b.gate
        && a.held_down_notes.len() == b.held_down_notes.len(), "C20/channel/same-receiver-as-clamped");
    let other: u8 = kani::any();
    kani::assume(other <= 15 && other != want);
    let mut x = MonoMidiReceiver::new(c);
    feed3(&mut x, 0x90 | other, 60, 100);
    vassert!(x.held_down_notes.len() == 0, "C20/channel/other-channels-ignored");
    feed3(&mut a, 0x90 | want, 60, 100);
    vassert!(a.held_down_notes.len() == 1 && a.held_down_notes[0] == 60, "C20/channel/listens-on-clamped-channel");
    // every message kind is filtered by the same clamped channel
    feed3(&mut a, 0x80 | want, 60, 0);
    vassert!(a.held_down_notes.len() == 2, "C20/channel/note-off-on-clamped-channel");
    feed3(&mut a, 0xB0 | want, 1, 127);
    vassert!(a.mod_wheel() == 1.0, "C20/channel/controller-on-clamped-channel");
    feed3(&mut a, 0xE0 | want, 0, 0);
    vassert!(a.pitch_bend() == -1.0, "C20/channel/pitch-bend-on-clamped-channel");
    feed3(&mut x, 0xB0 | other, 1, 127);
    feed3(&mut x, 0xE0 | other, 0, 0);
    vassert!(x.mod_wheel() == 0.0 && x.pitch_bend() == 0.0, "C20/channel/other-channels-ignored");
    vcover!(c == 255, "witness: 255");
    vcover!(c == 16, "witness: 16");
    vcover!(c == 15, "witness: 15");
}
