// Harnesses anchored in src/phase_accumulator.rs (mounted as `phase_accumulator::verif`).
// The 24/10 instantiation is the one both Adsr and Lfo use.
use super::*;

type Pa = PhaseAccumulator<24, 10>;
const N24: u32 = 1 << 24;
const MASK: u32 = N24 - 1;
/// largest increment a documented configuration can produce:
/// 1 ms at 100 Hz = 10 cycles per tick (ADSR); the LFO stays <= 1 cycle per tick.
const INC_MAX: u32 = 10 * N24 + 64;

/// Inv_pa between two public calls of an owner (Adsr, Lfo): acc < 2^24, last == acc.
fn any_pa(flag: bool) -> Pa {
    let fs: f32 = kani::any();
    kani::assume(fs >= 100.0 && fs <= 192_000.0);
    let acc: u32 = kani::any();
    kani::assume(acc <= MASK);
    let inc: u32 = kani::any();
    kani::assume(inc <= INC_MAX);
    // `last` is arbitrary: set_phase() leaves it at 0 while the counter is not
    let last: u32 = kani::any();
    kani::assume(last <= MASK);
    Pa::verif_from_parts(fs, acc, last, inc, flag)
}

// =====================================================================
// C02 / C11 / C17  one tick of the counter: exact transition relation
// =====================================================================

// @harness prop=C02,C11,C17,C03 tier=quick timeout=120
// @about any counter state with acc < 2^24 (last arbitrary), any increment 0..=10*2^24+64 (every increment a documented sample-rate/time pair can produce): acc' = (acc+inc) mod 2^24; the rollover flag is raised iff acc+inc >= 2^24 (the cycle completed on this tick), never cleared by tick; no arithmetic overflow (Kani built-in checks)
#[kani::proof]
fn c02_tick_relation() {
    let mut pa = any_pa(false);
    let acc = pa.verif_acc();
    let inc = pa.verif_inc();
    pa.tick();
    let sum = acc as u64 + inc as u64;
    vassert!(pa.verif_acc() as u64 == sum % (N24 as u64), "C02/tick/acc-advances-by-inc-mod-2^24");
    vassert!(pa.verif_acc() <= MASK, "C02/tick/acc-stays-below-2^24");
    vassert!(pa.verif_last() == pa.verif_acc(), "C02/tick/last-tracks-acc");
    vassert!(pa.verif_inc() == inc, "C02/tick/increment-unchanged");
    let completed = sum >= N24 as u64;
    if completed {
        vassert!(pa.verif_flag(), "C02/tick/rollover-flagged-when-cycle-completes");
    } else {
        vassert!(!pa.verif_flag(), "C02/tick/no-early-rollover");
    }
    vcover!(completed && inc < N24, "witness: ordinary rollover");
    vcover!(inc == N24 && acc == 0, "witness: increment of exactly one cycle from 0");
    vcover!(inc >= 2 * N24, "witness: several cycles per tick (T*fs < 1)");
    vcover!(!completed && inc > 0, "witness: mid-cycle tick");
    vcover!(inc == 0, "witness: zero increment");
}

// @harness prop=C02,C17 tier=quick timeout=120
// @about progress: any valid counter state, any increment >= 1 within the documented maximum: a tick either completes the cycle (flag) or strictly increases acc, so a timed phase ends after at most 2^24 ticks
#[kani::proof]
fn c17_tick_progress() {
    let mut pa = any_pa(false);
    kani::assume(pa.verif_inc() >= 1);
    let acc = pa.verif_acc();
    pa.tick();
    vassert!(pa.verif_flag() || pa.verif_acc() > acc, "C17/tick/progress-or-rollover");
    vcover!(pa.verif_flag(), "witness: rollover");
    vcover!(!pa.verif_flag(), "witness: advance");
}

// @harness prop=C11 tier=quick timeout=120
// @about any counter state incl. pending flag: reset() gives acc = 0 (phase 0), last = 0, flag cleared, increment and sample rate untouched; rolled_over() reads-and-clears the flag and touches nothing else
#[kani::proof]
fn c11_reset_and_flag() {
    let flag: bool = kani::any();
    let mut pa = any_pa(flag);
    let before = pa;
    let got = pa.rolled_over();
    vassert!(got == flag, "C11/rolled_over/returns-flag");
    vassert!(!pa.verif_flag(), "C11/rolled_over/self-clearing");
    vassert!(pa.verif_acc() == before.verif_acc() && pa.verif_inc() == before.verif_inc()
        && pa.verif_last() == before.verif_last(), "C11/rolled_over/frame");
    let mut pb = before;
    pb.reset();
    vassert!(pb.verif_acc() == 0 && pb.verif_last() == 0 && !pb.verif_flag(), "C11/reset/phase-zero");
    vassert!(pb.ramp() == 0.0 && pb.index() == 0 && pb.fraction() == 0.0, "C11/reset/readouts-zero");
    vassert!(pb.verif_inc() == before.verif_inc() && pb.verif_fs().to_bits() == before.verif_fs().to_bits(),
        "C11/reset/keeps-frequency");
    vcover!(flag, "witness: pending flag");
}

// =====================================================================
// C03 / C12 support: index() and fraction() split the counter exactly
// =====================================================================

// @harness prop=C03,C12 tier=quick timeout=120
// @about all 2^24 counter values: index() is the top 10 bits, fraction() is the in-cell position low14/2^14 within 2^-13 (in [0,1], 0 at the start of every cell), so (index + fraction)/1024 tracks acc/2^24
#[kani::proof]
fn c03_index_fraction_split() {
    let acc: u32 = kani::any();
    kani::assume(acc <= MASK);
    let last: u32 = kani::any(); // arbitrary: set_phase() leaves it at 0 while the counter is not
    kani::assume(last <= MASK);
    let pa = Pa::verif_from_parts(1000.0, acc, last, 0, false);
    let idx = pa.index();
    let fr = pa.fraction();
    vassert!(idx == (acc >> 14) as usize, "C03/index/top-bits");
    vassert!(idx < 1024, "C03/index/in-table");
    vassert!(fr >= 0.0 && fr <= 1.0, "C03/fraction/in-[0,1]");
    // the in-cell position: low 14 bits over 2^14 (or over 2^14-1: both are continuous
    // interpolation weights; they differ by < 2^-13)
    let want = (acc & 0x3fff) as f32 / 16384.0;
    vassert!(fr >= want - 0.00012207031 && fr <= want + 0.00012207031, "C03/fraction/is-in-cell-position");
    vcover!(acc & 0x3fff == 0 && acc > 0, "witness: cell start");
    vcover!(acc & 0x3fff == 0x3fff, "witness: cell end");
    vcover!(acc == MASK, "witness: last counter value");
}

// =====================================================================
// C02 / C11  increment accuracy (per fixed sample rate)
// =====================================================================

const RATES: [f32; 13] = [100.0, 500.0, 999.0, 1_000.0, 8_000.0, 44_100.0, 48_000.0, 96_000.0, 192_000.0,
    22_050.0, 32_000.0, 88_200.0, 176_400.0];

// @family prop=C02 name=c02_increment_accuracy macro=c02_increment_accuracy n=13 quick=0,1,3,5,6,8 thorough=all timeout=1500
// @about slice = sample rate {100, 500, 999, 1000, 8000, 44100, 48000, 96000, 192000, 22050, 32000, 88200, 176400 Hz}; envelope time T on the grid k/1024 s, k = 2..=20480 (1.95 ms .. 20 s) or one of the bounds 0.001 / 0.0015 / 20 s: after set_period(T) the increment satisfies inc >= 1 and 2^24/(T*fs)*(1-2^-21) - 1 <= inc <= 2^24/(T*fs)*(1+2^-21) (decided without division: inc*(T*fs) against 2^24, exact in f64) -- so a phase of N = T*fs ticks ends on tick ceil(2^24/inc): never earlier than N (up to f32 rounding of 1/T/fs) and at most N/(1-N/2^24)+2 ticks; no overflow in tick() with that increment
macro_rules! c02_increment_accuracy {
    ($name:ident, $k:expr) => {
        #[kani::proof]
        fn $name() {
            let fs: f32 = RATES[$k];
            let k: u16 = kani::any();
            let special: u8 = kani::any();
            kani::assume(special <= 3);
            kani::assume(k >= 2 && k <= 20480);
            let t: f32 = match special { 0 => k as f32 / 1024.0, 1 => 0.001, 2 => 0.0015, _ => 20.0 };
            // previous increment and counter arbitrary: the new setting must replace whatever was there
            let prev: u32 = kani::any();
            let acc0: u32 = kani::any();
            kani::assume(acc0 <= MASK);
            let mut pa = Pa::verif_from_parts(fs, acc0, acc0, prev, false);
            pa.set_period(t);
            vassert!(pa.verif_acc() == acc0, "C02/set_period/leaves-the-counter-alone");
            let inc = pa.verif_inc();
            let n = t as f64 * fs as f64; // ticks per phase, exact
            let full = 16777216.0_f64;
            vassert!(inc >= 1, "C02/increment/at-least-one-step-per-tick");
            vassert!(inc as f64 * n <= full * (1.0 + 4.76837158203125e-7), "C02/increment/phase-never-shorter-than-configured");
            vassert!((inc as f64 + 1.0) * n >= full * (1.0 - 4.76837158203125e-7), "C02/increment/late-only-by-counter-resolution");
            vcover!(special == 0 && k == 20480, "witness: 20 s");
            vcover!(special == 1, "witness: 1 ms");
            vcover!(special == 2, "witness: 1.5 ms");
        }
    };
}

// @family prop=C11 name=c11_frequency_accuracy macro=c11_frequency_accuracy n=13 quick=0,3,5,6,8 thorough=all timeout=1500
// @about slice = sample rate as above; LFO frequency f on two 16-bit grids (k/64 Hz for k < 2^16 capped at fs, and fs*k/2^16 computed in f32, k <= 2^16, which includes f = 0 and f = fs): after set_frequency(f) the per-tick phase advance inc/2^24 lies in [f/fs*(1-2^-23) - 2^-24, f/fs*(1+2^-23)] (decided as inc*fs against 2^24*f, exact in f64): too much by at most f32 rounding, too little by at most that plus one counter step; inc <= 2^24 so tick() cannot overflow
macro_rules! c11_frequency_accuracy {
    ($name:ident, $k:expr) => {
        #[kani::proof]
        fn $name() {
            let fs: f32 = RATES[$k];
            let k: u32 = kani::any();
            kani::assume(k <= 65536);
            let grid2: bool = kani::any();
            let f: f32 = if grid2 { (fs * k as f32) / 65536.0 } else { k as f32 / 64.0 };
            kani::assume(f <= fs);
            // previous increment and phase arbitrary: a frequency change (also to 0 Hz) replaces the old
            // increment and takes effect from the next tick without a phase jump
            let prev: u32 = kani::any();
            let acc0: u32 = kani::any();
            kani::assume(acc0 <= MASK);
            let mut pa = Pa::verif_from_parts(fs, acc0, acc0, prev, false);
            pa.set_frequency(f);
            vassert!(pa.verif_acc() == acc0, "C11/set_frequency/no-phase-jump");
            let inc = pa.verif_inc();
            let want = 16777216.0_f64 * f as f64; // exact
            vassert!(inc as f64 * fs as f64 <= want * (1.0 + 1.1920928955078125e-7), "C11/increment/not-too-fast-beyond-f32-rounding");
            vassert!((inc as f64 + 1.0) * fs as f64 >= want * (1.0 - 1.1920928955078125e-7), "C11/increment/too-slow-by-at-most-rounding-plus-one-step");
            vassert!(inc <= 16777216, "C11/increment/at-most-one-cycle-per-tick");
            vcover!(grid2 && k == 65536, "witness: f == fs");
            vcover!(k == 0, "witness: f == 0");
            vcover!(!grid2 && k == 1, "witness: 1/64 Hz");
        }
    };
}

// @harness prop=C10,C11 tier=quick timeout=120
// @about reachability of phases by ticking: any counter value < 2^24, any increment a frequency in [0, sample rate] can produce (0..=2^24, see c11_frequency_accuracy): after tick() the counter is again < 2^24, so every phase the oscillator reaches by ticking is one of the 2^24 values the waveform harnesses quantify over
#[kani::proof]
fn c10_tick_keeps_phase_in_range() {
    let mut pa = any_pa(false);
    kani::assume(pa.verif_inc() <= N24); // c11_frequency_accuracy: f <= fs gives at most one cycle per tick
    pa.tick();
    vassert!(pa.verif_acc() <= MASK, "C10/tick/phase-stays-below-one-cycle");
    vcover!(pa.verif_flag(), "witness: wrapped");
}
