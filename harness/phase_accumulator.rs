// Harnesses anchored in src/phase_accumulator.rs (mounted as `phase_accumulator::verif`).
// The 24/10 instantiation is the one both Adsr and Lfo use.
use super::*;

type Pa = PhaseAccumulator<24, 10>;
const N24: u32 = 1 << 24;
const MASK: u32 = N24 - 1;
/// largest increment a documented configuration can produce:
/// 1 ms at 100 Hz = 10 cycles per tick (ADSR); the LFO stays <= 1 cycle per tick.
const INC_MAX: u32 = 10 * N24 + 64;

/// Inv_pa between two public calls of an owner (Adsr, Lfo): acc < 2^24, last == acc.
fn any_pa(flag: bool) -> Pa {
    let fs: f32 = kani::any();
    kani::assume(fs >= 100.0 && fs <= 192_000.0);
    let acc: u32 = kani::any();
    kani::assume(acc <= MASK);
    let inc: u32 = kani::any();
    kani::assume(inc <= INC_MAX);
    Pa::verif_from_parts(fs, acc, acc, inc, flag)
}

// =====================================================================
// C02 / C11 / C17  one tick of the counter: exact transition relation
// =====================================================================

// @harness prop=C02,C11,C17 tier=quick timeout=120
// @about any counter state with acc < 2^24 and last == acc, any increment 0..=10*2^24+64 (every increment a documented sample-rate/time pair can produce): acc' = (acc+inc) mod 2^24; the rollover flag is raised iff acc+inc >= 2^24 (the cycle completed on this tick), never cleared by tick; no arithmetic overflow (Kani built-in checks)
#[kani::proof]
fn c02_tick_relation() {
    let mut pa = any_pa(false);
    let acc = pa.verif_acc();
    let inc = pa.verif_inc();
    pa.tick();
    let sum = acc as u64 + inc as u64;
    vassert!(pa.verif_acc() as u64 == sum % (N24 as u64), "C02/tick/acc-advances-by-inc-mod-2^24");
    vassert!(pa.verif_acc() <= MASK, "C02/tick/acc-stays-below-2^24");
    vassert!(pa.verif_last() == pa.verif_acc(), "C02/tick/last-tracks-acc");
    vassert!(pa.verif_inc() == inc, "C02/tick/increment-unchanged");
    let completed = sum >= N24 as u64;
    if completed {
        vassert!(pa.verif_flag(), "C02/tick/rollover-flagged-when-cycle-completes");
    } else {
        vassert!(!pa.verif_flag(), "C02/tick/no-early-rollover");
    }
    vcover!(completed && inc < N24, "witness: ordinary rollover");
    vcover!(inc == N24 && acc == 0, "witness: increment of exactly one cycle from 0");
    vcover!(inc >= 2 * N24, "witness: several cycles per tick (T*fs < 1)");
    vcover!(!completed && inc > 0, "witness: mid-cycle tick");
    vcover!(inc == 0, "witness: zero increment");
}

// @harness prop=C02,C17 tier=quick timeout=120
// @about progress: any valid counter state, any increment >= 1 within the documented maximum: a tick either completes the cycle (flag) or strictly increases acc, so a timed phase ends after at most 2^24 ticks
#[kani::proof]
fn c17_tick_progress() {
    let mut pa = any_pa(false);
    kani::assume(pa.verif_inc() >= 1);
    let acc = pa.verif_acc();
    pa.tick();
    vassert!(pa.verif_flag() || pa.verif_acc() > acc, "C17/tick/progress-or-rollover");
    vcover!(pa.verif_flag(), "witness: rollover");
    vcover!(!pa.verif_flag(), "witness: advance");
}

// @harness prop=C11 tier=quick timeout=120
// @about any counter state incl. pending flag: reset() gives acc = 0 (phase 0), last = 0, flag cleared, increment and sample rate untouched; rolled_over() reads-and-clears the flag and touches nothing else
#[kani::proof]
fn c11_reset_and_flag() {
    let flag: bool = kani::any();
    let mut pa = any_pa(flag);
    let before = pa;
    let got = pa.rolled_over();
    vassert!(got == flag, "C11/rolled_over/returns-flag");
    vassert!(!pa.verif_flag(), "C11/rolled_over/self-clearing");
    vassert!(pa.verif_acc() == before.verif_acc() && pa.verif_inc() == before.verif_inc()
        && pa.verif_last() == before.verif_last(), "C11/rolled_over/frame");
    let mut pb = before;
    pb.reset();
    vassert!(pb.verif_acc() == 0 && pb.verif_last() == 0 && !pb.verif_flag(), "C11/reset/phase-zero");
    vassert!(pb.ramp() == 0.0 && pb.index() == 0 && pb.fraction() == 0.0, "C11/reset/readouts-zero");
    vassert!(pb.verif_inc() == before.verif_inc() && pb.verif_fs().to_bits() == before.verif_fs().to_bits(),
        "C11/reset/keeps-frequency");
    vcover!(flag, "witness: pending flag");
}

// =====================================================================
// C03 / C12 support: index() and fraction() split the counter exactly
// =====================================================================

// @harness prop=C03,C12 tier=quick timeout=120
// @about all 2^24 counter values: index() is the top 10 bits, fraction() is the in-cell position low14/2^14 within 2^-13 (in [0,1], 0 at the start of every cell), so (index + fraction)/1024 tracks acc/2^24
#[kani::proof]
fn c03_index_fraction_split() {
    let acc: u32 = kani::any();
    kani::assume(acc <= MASK);
    let pa = Pa::verif_from_parts(1000.0, acc, acc, 0, false);
    let idx = pa.index();
    let fr = pa.fraction();
    vassert!(idx == (acc >> 14) as usize, "C03/index/top-bits");
    vassert!(idx < 1024, "C03/index/in-table");
    vassert!(fr >= 0.0 && fr <= 1.0, "C03/fraction/in-[0,1]");
    // the in-cell position: low 14 bits over 2^14 (or over 2^14-1: both are continuous
    // interpolation weights; they differ by < 2^-13)
    let want = (acc & 0x3fff) as f32 / 16384.0;
    vassert!(fr >= want - 0.00012207031 && fr <= want + 0.00012207031, "C03/fraction/is-in-cell-position");
    vcover!(acc & 0x3fff == 0 && acc > 0, "witness: cell start");
    vcover!(acc & 0x3fff == 0x3fff, "witness: cell end");
    vcover!(acc == MASK, "witness: last counter value");
}
