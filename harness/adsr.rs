// Harnesses anchored in src/adsr.rs (mounted as `adsr::verif`, a child module:
// private fields of Adsr / TimePeriod / SustainLevel are visible here).
use super::*;
use crate::phase_accumulator::PhaseAccumulator;

pub(crate) const ACC_MAX: u32 = (1 << 24) - 1;

pub(crate) fn any_unit() -> f32 {
    let v: f32 = kani::any();
    kani::assume(v >= 0.0 && v <= 1.0);
    v
}

pub(crate) fn any_time() -> TimePeriod {
    let v: f32 = kani::any();
    kani::assume(v >= 0.001 && v <= 20.0);
    TimePeriod(v)
}

pub(crate) fn any_state() -> State {
    let k: u8 = kani::any();
    kani::assume(k < 5);
    match k {
        0 => State::AtRest,
        1 => State::Attack,
        2 => State::Decay,
        3 => State::Sustain,
        _ => State::Release,
    }
}

/// Representation invariant of `Adsr` between two public calls (Inv_adsr):
/// levels in [0,1]; counter < 2^24; `last == acc` and no pending rollover flag
/// (tick() consumes the flag and both reset paths zero the pair).
pub(crate) fn any_adsr(fs: f32) -> Adsr {
    let acc: u32 = kani::any();
    kani::assume(acc <= ACC_MAX);
    let inc: u32 = kani::any();
    Adsr {
        attack_time: any_time(),
        decay_time: any_time(),
        sustain_level: SustainLevel(any_unit()),
        release_time: any_time(),
        phase_accumulator: PhaseAccumulator::verif_from_parts(fs, acc, acc, inc, false),
        state: any_state(),
        value_when_gate_on_received: any_unit(),
        value_when_gate_off_received: any_unit(),
        value: any_unit(),
    }
}

pub(crate) fn same_adsr(a: &Adsr, b: &Adsr) -> bool {
    a.attack_time.0.to_bits() == b.attack_time.0.to_bits()
        && a.decay_time.0.to_bits() == b.decay_time.0.to_bits()
        && a.sustain_level.0.to_bits() == b.sustain_level.0.to_bits()
        && a.release_time.0.to_bits() == b.release_time.0.to_bits()
        && a.phase_accumulator == b.phase_accumulator
        && a.state == b.state
        && a.value_when_gate_on_received.to_bits() == b.value_when_gate_on_received.to_bits()
        && a.value_when_gate_off_received.to_bits() == b.value_when_gate_off_received.to_bits()
        && a.value.to_bits() == b.value.to_bits()
}

// =====================================================================
// C20  parameter clamps (adsr part)
// =====================================================================

// @harness prop=C20 tier=quick timeout=120
// @about all 2^32 f32 bit patterns x: f32 -> TimePeriod -> f32 lies in [0.001,20], equals x inside, the nearer bound outside, a bound for NaN
#[kani::proof]
fn c20_time_period_clamp() {
    let x: f32 = kani::any();
    let y: f32 = TimePeriod::from(x).into();
    vassert!(y >= 0.001_f32 && y <= 20.0_f32, "C20/time/in-range");
    if x >= 0.001_f32 && x <= 20.0_f32 {
        vassert!(y == x, "C20/time/identity-inside");
    }
    if x < 0.001_f32 {
        vassert!(y == 0.001_f32, "C20/time/below->min");
    }
    if x > 20.0_f32 {
        vassert!(y == 20.0_f32, "C20/time/above->max");
    }
    if x.is_nan() {
        vassert!(y == 0.001_f32 || y == 20.0_f32, "C20/time/nan->bound");
    }
    vcover!(x.is_nan(), "witness: NaN input");
    vcover!(x == f32::NEG_INFINITY, "witness: -inf input");
    vcover!(x > 20.0_f32 && x.is_finite(), "witness: above range");
    vcover!(x > 0.001_f32 && x < 20.0_f32, "witness: inside");
}

// @harness prop=C20 tier=quick timeout=120
// @about all 2^32 f32 bit patterns x: f32 -> SustainLevel -> f32 lies in [0,1], equals x inside, the nearer bound outside, a bound for NaN
#[kani::proof]
fn c20_sustain_level_clamp() {
    let x: f32 = kani::any();
    let y: f32 = SustainLevel::from(x).into();
    vassert!(y >= 0.0_f32 && y <= 1.0_f32, "C20/sustain/in-range");
    if x >= 0.0_f32 && x <= 1.0_f32 {
        vassert!(y == x, "C20/sustain/identity-inside");
    }
    if x < 0.0_f32 {
        vassert!(y == 0.0_f32, "C20/sustain/below->min");
    }
    if x > 1.0_f32 {
        vassert!(y == 1.0_f32, "C20/sustain/above->max");
    }
    if x.is_nan() {
        vassert!(y == 0.0_f32 || y == 1.0_f32, "C20/sustain/nan->bound");
    }
    vcover!(x.is_nan(), "witness: NaN input");
    vcover!(x < 0.0_f32, "witness: below range");
    vcover!(x > 1.0_f32, "witness: above range");
    vcover!(x > 0.0_f32 && x < 1.0_f32 && x.to_bits() & 0x7f80_0000 == 0, "witness: subnormal inside");
}

// @harness prop=C20 tier=quick timeout=180
// @about any Inv_adsr state (all fields symbolic), any out-of-range or NaN x, any of the 4 inputs: set_input(x) and set_input(nearest bound) leave two copies of the envelope bit-identical in every field, hence identical behaviour ever after; in-range x is stored unchanged; only the addressed parameter changes
#[kani::proof]
fn c20_out_of_range_input_acts_as_bound() {
    let fs: f32 = kani::any();
    kani::assume(fs >= 100.0 && fs <= 192_000.0);
    let a0 = any_adsr(fs);
    let mut a = a0;
    let mut b = a0;
    let x: f32 = kani::any();
    let which: u8 = kani::any();
    kani::assume(which < 4);
    let (lo, hi) = if which == 2 { (0.0_f32, 1.0_f32) } else { (0.001_f32, 20.0_f32) };
    // the bound the statement prescribes (for NaN: either)
    let pick_hi: bool = kani::any();
    let bound = if x > hi {
        hi
    } else if x < lo {
        lo
    } else if x.is_nan() {
        if pick_hi { hi } else { lo }
    } else {
        x
    };
    let (ia, ib) = match which {
        0 => (Input::Attack(x.into()), Input::Attack(bound.into())),
        1 => (Input::Decay(x.into()), Input::Decay(bound.into())),
        2 => (Input::Sustain(x.into()), Input::Sustain(bound.into())),
        _ => (Input::Release(x.into()), Input::Release(bound.into())),
    };
    a.set_input(ia);
    b.set_input(ib);
    if x.is_nan() {
        // NaN may become either bound; the nondeterministic pick must be able to match
        let mut c = a0;
        let other = if pick_hi { lo } else { hi };
        c.set_input(match which {
            0 => Input::Attack(other.into()),
            1 => Input::Decay(other.into()),
            2 => Input::Sustain(other.into()),
            _ => Input::Release(other.into()),
        });
        vassert!(same_adsr(&a, &b) || same_adsr(&a, &c), "C20/adsr/nan-acts-as-a-bound");
    } else {
        vassert!(same_adsr(&a, &b), "C20/adsr/out-of-range-acts-as-bound");
        vassert!(ia == ib, "C20/adsr/input-values-equal");
    }
    // frame: nothing but the addressed parameter moved
    let stored = match which {
        0 => a.attack_time.0,
        1 => a.decay_time.0,
        2 => a.sustain_level.0,
        _ => a.release_time.0,
    };
    if !x.is_nan() {
        vassert!(stored == bound, "C20/adsr/stored-value-is-clamped-input");
    }
    let mut r = a;
    match which {
        0 => r.attack_time = a0.attack_time,
        1 => r.decay_time = a0.decay_time,
        2 => r.sustain_level = a0.sustain_level,
        _ => r.release_time = a0.release_time,
    }
    vassert!(same_adsr(&r, &a0), "C20/adsr/set_input-changes-only-its-parameter");
    vcover!(x > 20.0 && which == 0, "witness: attack above range");
    vcover!(x < 0.0 && which == 2, "witness: sustain below range");
    vcover!(x.is_nan() && which == 3, "witness: release NaN");
    vcover!(x == 0.5 && which == 1, "witness: decay in range");
}

// =====================================================================
// C01  range, shape, exact levels (all phases, all levels)
// =====================================================================

fn set_acc(a: &mut Adsr, acc: u32) {
    let fs = a.phase_accumulator.verif_fs();
    let inc = a.phase_accumulator.verif_inc();
    // `last` is pure bookkeeping of the counter: arbitrary, no output may depend on it
    let last: u32 = kani::any();
    kani::assume(last <= ACC_MAX);
    a.phase_accumulator = PhaseAccumulator::verif_from_parts(fs, acc, last, inc, false);
}

// @harness prop=C01 tier=quick timeout=1200
// @about any Inv_adsr state: any of the 5 phases, any counter value (all 2^24), any f32 start/sustain/gate-off level in [0,1]: calc_value() (the value tick() stores) lies in [0,1]; attack: >= the level at which it started; decay: >= the sustain level; release: <= the level at which it started; sustain: exactly the sustain level; rest: exactly 0.0. No index/overflow panic
#[kani::proof]
fn c01_value_range_and_shape_bounds() {
    let a = any_adsr(1000.0);
    let v = a.calc_value();
    vassert!(v >= 0.0 && v <= 1.0, "C01/value/in-[0,1]");
    match a.state {
        State::Attack => vassert!(v >= a.value_when_gate_on_received, "C01/attack/not-below-start-level"),
        State::Decay => vassert!(v >= a.sustain_level.0, "C01/decay/not-below-sustain-level"),
        State::Sustain => vassert!(v.to_bits() == a.sustain_level.0.to_bits() || (v == 0.0 && a.sustain_level.0 == 0.0), "C01/sustain/exactly-sustain-level"),
        State::Release => vassert!(v <= a.value_when_gate_off_received, "C01/release/not-above-start-level"),
        State::AtRest => vassert!(v == 0.0, "C01/rest/exactly-0"),
    }
    vcover!(a.state == State::Attack && a.phase_accumulator.verif_acc() == ACC_MAX, "witness: last attack position");
    vcover!(a.state == State::Release && a.value_when_gate_off_received == 1.0, "witness: release from full scale");
    vcover!(a.state == State::Decay && a.sustain_level.0 == 0.0, "witness: decay to zero sustain");
}

// @harness prop=C01,C03 tier=quick timeout=600
// @about exact levels at the segment joints, for every f32 level in [0,1]: a phase entered at counter 0 outputs exactly the level it starts from (attack: the latched gate-on level; release: the latched gate-off level; decay: exactly 1.0 for every sustain level), and the last counter value of decay / release outputs exactly the sustain level / 0.0, the last counter value of attack exactly 1.0 -- so the value handed over at every phase boundary is the target level itself
#[kani::proof]
fn c01_exact_levels_at_segment_joints() {
    let mut a = any_adsr(1000.0);
    let at_end: bool = kani::any();
    let tail: u32 = kani::any();
    kani::assume(tail < (1 << 14));
    // start of a segment, or anywhere in the last table cell (clamped neighbour: flat at the end value)
    set_acc(&mut a, if at_end { (1023 << 14) | tail } else { 0 });
    let v = a.calc_value();
    match (a.state, at_end) {
        (State::Attack, false) => vassert!(v == a.value_when_gate_on_received, "C01/attack/starts-exactly-at-latched-level"),
        (State::Attack, true) => vassert!(v == 1.0, "C01/attack/ends-exactly-at-1.0"),
        (State::Decay, false) => vassert!(v == 1.0, "C01/decay/starts-exactly-at-1.0"),
        (State::Decay, true) => vassert!(v == a.sustain_level.0, "C01/decay/ends-exactly-at-sustain-level"),
        (State::Release, false) => vassert!(v == a.value_when_gate_off_received, "C01/release/starts-exactly-at-latched-level"),
        (State::Release, true) => vassert!(v == 0.0, "C01/release/ends-exactly-at-0.0"),
        _ => (),
    }
    vcover!(a.state == State::Decay && !at_end && a.sustain_level.0 > 0.0 && a.sustain_level.0 < 1.0e-7, "witness: tiny sustain");
    vcover!(a.state == State::Attack && at_end && tail == 0x3fff, "witness: very last attack position");
}

// @harness prop=C01 tier=quick timeout=1200
// @about curve fidelity, all 2^24 counter values of both tables, normalised segments (attack from 0 to 1, release from 1 to 0): the output is within 0.5% of full scale of the documented RC curve for EVERY phase of the cell it is in: decided as out in [max(R_i,R_i+1) - 0.005, min(R_i,R_i+1) + 0.005] where R_i, R_i+1 are the reference curve (generated at run time by lib/oracle.py from the documented formula: attack (1-exp(-x/3))/(1-exp(-4/3)), decay (exp(-x)-exp(-4))/(1-exp(-4)), x = 4*phase) at the two cell edges; the RC curve is monotone, so it stays between them. A stretched segment is value = start + (target-start)*normalised (one affine expression), whose error is this one times |target-start| <= 1
#[kani::proof]
fn c01_curve_fidelity_normalised() {
    let acc: u32 = kani::any();
    kani::assume(acc <= ACC_MAX);
    let rel: bool = kani::any();
    let mut a = Adsr::new(1000.0);
    a.state = if rel { State::Release } else { State::Attack };
    a.value_when_gate_on_received = 0.0;
    a.value_when_gate_off_received = 1.0;
    set_acc(&mut a, acc);
    let v = a.calc_value() as f64;
    let i = (acc >> 14) as usize;
    let (r0, r1) = if rel { (DEC_REF[i], DEC_REF[i + 1]) } else { (ATT_REF[i], ATT_REF[i + 1]) };
    let (lo, hi) = if r0 < r1 { (r0, r1) } else { (r1, r0) };
    vassert!(v >= hi - 0.005 && v <= lo + 0.005, "C01/fidelity/within-0.5%-of-documented-RC-curve");
    vcover!(rel && i == 0, "witness: steepest release cell");
    vcover!(!rel && i == 1023, "witness: last attack cell");
}

/// steepest cell of each table times 1024 (slope per unit phase), as read from the tables
const ATT_MAX_STEP: f64 = 0.0017687427;
const DEC_MAX_STEP: f64 = 0.0039753;

// @harness prop=C01,C03 tier=quick timeout=900
// @about all 2^24 counter values of both tables at once (cheap range-class query), normalised segments: the output lies between the two table points of its cell (upper neighbour clamped at the last entry), +-2^-23. With the tables monotone from entry to entry (c03_table_facts) this makes the output monotone ACROSS cells for every pair of positions; monotonicity inside a cell is obligation (b) of the slices
#[kani::proof]
fn c01_between_cell_neighbours() {
    let acc: u32 = kani::any();
    kani::assume(acc <= ACC_MAX);
    let rel: bool = kani::any();
    let mut a = Adsr::new(1000.0);
    a.state = if rel { State::Release } else { State::Attack };
    a.value_when_gate_on_received = 0.0;
    a.value_when_gate_off_received = 1.0;
    set_acc(&mut a, acc);
    let y = a.calc_value();
    let i = (acc >> 14) as usize;
    let j = if i + 1 < 1024 { i + 1 } else { 1023 };
    let (t0, t1) = if rel {
        (lookup_tables::ADSR_DECAY_TABLE[i], lookup_tables::ADSR_DECAY_TABLE[j])
    } else {
        (lookup_tables::ADSR_ATTACK_TABLE[i], lookup_tables::ADSR_ATTACK_TABLE[j])
    };
    let (lo, hi) = if t0 < t1 { (t0, t1) } else { (t1, t0) };
    vassert!(y >= lo - 1.1920929e-7 && y <= hi + 1.1920929e-7, "C01/curve/between-the-two-table-points-of-its-cell");
    if acc & 0x3fff == 0 {
        vassert!(y == t0, "C01/curve/cell-start-is-the-table-entry");
    }
    vcover!(rel && i == 1023, "witness: last release cell");
    vcover!(!rel && acc & 0x3fff == 0 && i == 512, "witness: cell start");
}

// @family prop=C03 tprop=C01 name=c03_attack_slice macro=c03_attack_slice n=256 quick=0,128,255 seeded=3 thorough=all timeout=1500
// @about slice k = the 2^16 consecutive counter values [k*2^16,(k+1)*2^16) (4 table cells) of the ATTACK table, normalised segment (0 -> 1), acc symbolic in the slice: (a) |out(acc) - I(acc)| <= 2^-23 where I is the exact (f64) linear interpolant of the table with in-cell fraction low14/2^14 and the neighbour clamped at the last entry; (b) adjacent counter values: out never decreases and out(acc+1) - out(acc) <= steepest table step * 2^-14 + 2 ulp: interpolated, not a staircase. quick: first/middle/last slice + one VERIF_SEED-chosen; thorough: all 256 slices = all 2^24 counter values (measured: about 60 s per slice unshared)
macro_rules! c03_attack_slice {
    ($name:ident, $k:expr) => {
        #[kani::proof]
        fn $name() {
            curve_slice_body($k, false);
        }
    };
}

// @family prop=C03 tprop=C01 name=c03_release_slice macro=c03_release_slice n=256 quick=0,128,255 seeded=3 thorough=all timeout=1500
// @about as c03_attack_slice for the DECAY table (used by decay and release), normalised segment (1 -> 0): (a) output equals the exact interpolant within 2^-23; (b) adjacent counter values never increase and differ by <= steepest table step * 2^-14 + 2 ulp
macro_rules! c03_release_slice {
    ($name:ident, $k:expr) => {
        #[kani::proof]
        fn $name() {
            curve_slice_body($k, true);
        }
    };
}

fn curve_slice_body(k: u32, rel: bool) {
    let low: u32 = kani::any();
    kani::assume(low < (1 << 16));
    let acc: u32 = (k << 16) | low;
    kani::assume(acc < ACC_MAX);
    let mut a = Adsr::new(1000.0);
    a.state = if rel { State::Release } else { State::Attack };
    a.value_when_gate_on_received = 0.0;
    a.value_when_gate_off_received = 1.0;
    set_acc(&mut a, acc);
    let y = a.calc_value();
    let i = (acc >> 14) as usize;
    let j = if i + 1 < 1024 { i + 1 } else { 1023 };
    let (t0, t1) = if rel {
        (lookup_tables::ADSR_DECAY_TABLE[i] as f64, lookup_tables::ADSR_DECAY_TABLE[j] as f64)
    } else {
        (lookup_tables::ADSR_ATTACK_TABLE[i] as f64, lookup_tables::ADSR_ATTACK_TABLE[j] as f64)
    };
    let fr = (acc & 0x3fff) as f64 / 16384.0;
    let e = y as f64 - (t0 + (t1 - t0) * fr);
    vassert!(e <= 1.1920928955078125e-7 && e >= -1.1920928955078125e-7, "C03/curve/is-the-linear-interpolant-of-the-table");
    set_acc(&mut a, acc + 1);
    let y2 = a.calc_value();
    let d = y2 as f64 - y as f64;
    let step = (if rel { DEC_MAX_STEP } else { ATT_MAX_STEP }) / 16384.0 + 2.0 * 1.1920928955078125e-7;
    if rel {
        vassert!(d <= 0.0, "C01/release/non-increasing-within-phase");
    } else {
        vassert!(d >= 0.0, "C01/attack/non-decreasing-within-phase");
    }
    vassert!(d <= step && d >= -step, "C03/curve/adjacent-positions-differ<=steepest-slope*step+2ulp");
    vcover!(acc & 0x3fff == 0x3fff, "witness: pair crosses a cell boundary");
}

// @harness prop=C03,C01 tier=quick timeout=600
// @about table facts as read through the code's constants (all 1024 entries of both tables): attack starts at exactly 0.0 and ends at exactly 1.0, decay starts at exactly 1.0 and ends at exactly 0.0; attack is non-decreasing and decay non-increasing from entry to entry; no cell is steeper than ATT_MAX_STEP / DEC_MAX_STEP; every entry is within 0.05% of the documented RC reference at phase i/1023 (the table generator's grid)
#[kani::proof]
fn c03_table_facts() {
    let i: usize = kani::any();
    kani::assume(i < 1023);
    let (a0, a1) = (lookup_tables::ADSR_ATTACK_TABLE[i] as f64, lookup_tables::ADSR_ATTACK_TABLE[i + 1] as f64);
    let (d0, d1) = (lookup_tables::ADSR_DECAY_TABLE[i] as f64, lookup_tables::ADSR_DECAY_TABLE[i + 1] as f64);
    vassert!(lookup_tables::ADSR_ATTACK_TABLE[0] == 0.0 && lookup_tables::ADSR_ATTACK_TABLE[1023] == 1.0, "C03/table/attack-endpoints-0-and-1");
    vassert!(lookup_tables::ADSR_DECAY_TABLE[0] == 1.0 && lookup_tables::ADSR_DECAY_TABLE[1023] == 0.0, "C03/table/decay-endpoints-1-and-0");
    vassert!(a1 >= a0 && a1 - a0 <= ATT_MAX_STEP + 1.0e-9, "C03/table/attack-monotone-and-slope-bounded");
    vassert!(d1 <= d0 && d0 - d1 <= DEC_MAX_STEP + 1.0e-9, "C03/table/decay-monotone-and-slope-bounded");
    vassert!(lookup_tables::ADSR_CURVE_LUT_SIZE == 1024, "C03/table/size-1024");
    vcover!(i == 0, "witness: first cell");
    vcover!(i == 1022, "witness: last cell");
}

// @harness prop=C03,C02,C01 tier=quick timeout=900
// @about gate events arriving at any moment: any Inv_adsr state whose stored output is the current output (value == calc_value(), as after any tick), gate_on() / gate_off(): when the event is accepted the new segment's first output calc_value() equals the output before the event exactly (no click) and the counter restarts at 0; when it is ignored (gate_on in attack; gate_off in release / at rest) the envelope is bit-identical to before
#[kani::proof]
fn c03_gate_events_start_from_current_level() {
    let mut a = any_adsr(1000.0);
    let cur = a.calc_value();
    a.value = cur;
    let before = a;
    let on: bool = kani::any();
    if on { a.gate_on(); } else { a.gate_off(); }
    let accepted = if on { before.state != State::Attack } else {
        before.state == State::Attack || before.state == State::Decay || before.state == State::Sustain
    };
    if accepted {
        vassert!(a.state == if on { State::Attack } else { State::Release }, "C02/gate/accepted-event-starts-attack-or-release");
        vassert!(a.phase_accumulator.verif_acc() == 0 && !a.phase_accumulator.verif_flag(), "C02/gate/phase-counter-restarts");
        vassert!(a.calc_value() == cur, "C03/gate/new-segment-starts-at-the-level-being-output");
        vassert!(a.value == cur, "C03/gate/stored-output-untouched-by-the-event");
        let mut r = a;
        r.state = before.state;
        r.phase_accumulator = before.phase_accumulator;
        if on { r.value_when_gate_on_received = before.value_when_gate_on_received; }
        else { r.value_when_gate_off_received = before.value_when_gate_off_received; }
        vassert!(same_adsr(&r, &before), "C02/gate/nothing-else-changes");
    } else {
        vassert!(same_adsr(&a, &before), "C02/gate/ignored-event-changes-nothing");
    }
    vcover!(on && before.state == State::Release, "witness: re-trigger during release");
    vcover!(!on && before.state == State::Attack, "witness: gate-off during attack");
    vcover!(on && before.state == State::Attack, "witness: gate-on ignored in attack");
    vcover!(!on && before.state == State::AtRest, "witness: gate-off ignored at rest");
}

// =====================================================================
// C02  tick: state machine and timing
// =====================================================================

// @harness prop=C02,C01 tier=quick timeout=1500
// @about one tick() from any Inv_adsr state, any sample rate in [100,192000] (symbolic f32), any stored times in [0.001,20] s and levels; inc := the increment the tick installed (read back from the counter): (1) no transition and counter advanced by exactly inc unless counter+inc >= 2^24; otherwise exactly attack->decay, decay->sustain, release->rest with the counter back at 0 and no pending flag; sustain and rest never move and leave the counter alone; (2) Inv_adsr is preserved, parameters and latched levels untouched, and the stored output is in [0,1]; no overflow / panic (Kani checks; float->int casts saturate). That inc is the right one for the time of the current phase is c02_tick_uses_time_of_current_phase and c02_increment_accuracy
#[kani::proof]
fn c02_tick_state_machine() {
    let fs: f32 = kani::any();
    kani::assume(fs >= 100.0 && fs <= 192_000.0);
    let mut a = any_adsr(fs);
    let before = a;
    a.tick();
    let acc0 = before.phase_accumulator.verif_acc();
    let timed = before.state == State::Attack || before.state == State::Decay || before.state == State::Release;
    if timed {
        let inc = a.phase_accumulator.verif_inc();
        let done = acc0 as u64 + inc as u64 >= (1u64 << 24);
        if done {
            let next = match before.state {
                State::Attack => State::Decay,
                State::Decay => State::Sustain,
                _ => State::AtRest,
            };
            vassert!(a.state == next, "C02/tick/phase-ends-exactly-when-counter-completes-and-advances-in-order");
            vassert!(a.phase_accumulator.verif_acc() == 0, "C02/tick/next-phase-starts-at-0");
        } else {
            vassert!(a.state == before.state, "C02/tick/no-transition-before-the-counter-completes");
            vassert!(a.phase_accumulator.verif_acc() == acc0 + inc, "C02/tick/counter-advances-by-the-installed-increment");
        }
    } else {
        vassert!(a.state == before.state, "C02/tick/sustain-and-rest-persist");
        vassert!(a.phase_accumulator == before.phase_accumulator, "C02/tick/untimed-phases-leave-the-counter-alone");
    }
    vassert!(a.phase_accumulator.verif_acc() <= ACC_MAX && !a.phase_accumulator.verif_flag()
        && a.phase_accumulator.verif_last() == a.phase_accumulator.verif_acc(), "C02/tick/counter-invariant-preserved");
    vassert!(a.value >= 0.0 && a.value <= 1.0, "C01/tick/output-in-[0,1]");
    let mut r = a;
    r.state = before.state;
    r.phase_accumulator = before.phase_accumulator;
    r.value = before.value;
    vassert!(same_adsr(&r, &before), "C02/tick/parameters-and-latched-levels-untouched");
    vcover!(before.state == State::Attack && a.state == State::Decay, "witness: attack -> decay");
    vcover!(before.state == State::Decay && a.state == State::Sustain, "witness: decay -> sustain");
    vcover!(before.state == State::Release && a.state == State::AtRest, "witness: release -> rest");
    vcover!(before.state == State::Release && a.state == State::Release, "witness: mid-release tick");
}

// @harness prop=C02 tier=quick timeout=900
// @about which time a tick uses (concrete instance: 1 kHz; attack 0.5 s, decay 0.25 s, release 2 s stored -- all three distinct): from any phase and any counter value the increment installed by tick() is the one PhaseAccumulator::set_period gives for the time of the CURRENT phase (differential against the real function), so a time changed in mid-phase applies to the remaining part of that phase from the next tick on
#[kani::proof]
fn c02_tick_uses_time_of_current_phase() {
    let mut a = any_adsr(1000.0);
    a.attack_time = TimePeriod(0.5);
    a.decay_time = TimePeriod(0.25);
    a.release_time = TimePeriod(2.0);
    let before = a;
    a.tick();
    let timed = before.state == State::Attack || before.state == State::Decay || before.state == State::Release;
    if timed {
        let mut p = PhaseAccumulator::<24, 10>::new(1000.0);
        p.set_period(match before.state { State::Attack => 0.5, State::Decay => 0.25, _ => 2.0 });
        vassert!(a.phase_accumulator.verif_inc() == p.verif_inc(), "C02/tick/increment-is-that-of-the-current-phase-time");
        vassert!(p.verif_inc() >= 1, "C02/tick/increment-at-least-one-counter-step");
    }
    vcover!(before.state == State::Decay, "witness: decay");
    vcover!(before.state == State::Release, "witness: release");
}

// =====================================================================
// C17  public operations: no panic, progress
// =====================================================================

// @harness prop=C17 tier=quick timeout=1500
// @about public API only: Adsr::new(fs) for any f32 sample rate in [100, 192000]; all four inputs set from ANY f32 bit pattern (finite, subnormal, NaN, inf -- clamped by the conversions); gate_on, tick, tick, gate_off, tick in that order with the calls individually enabled by symbolic flags: no panic, no arithmetic overflow, no out-of-bounds table index (Kani's built-in checks are the assertion) and value() in [0,1] after every call
#[kani::proof]
fn c17_adsr_public_ops_no_panic() {
    let fs: f32 = kani::any();
    kani::assume(fs >= 100.0 && fs <= 192_000.0);
    let mut a = Adsr::new(fs);
    let (x0, x1, x2, x3): (f32, f32, f32, f32) = (kani::any(), kani::any(), kani::any(), kani::any());
    a.set_input(Input::Attack(x0.into()));
    a.set_input(Input::Decay(x1.into()));
    a.set_input(Input::Sustain(x2.into()));
    a.set_input(Input::Release(x3.into()));
    let flags: u8 = kani::any();
    if flags & 1 != 0 { a.gate_on(); }
    a.tick();
    vassert!(a.value() >= 0.0 && a.value() <= 1.0, "C17/adsr/value-in-[0,1]-after-first-tick");
    if flags & 2 != 0 { a.tick(); }
    if flags & 4 != 0 { a.gate_off(); }
    if flags & 8 != 0 { a.gate_on(); }
    a.tick();
    vassert!(a.value() >= 0.0 && a.value() <= 1.0, "C17/adsr/value-in-[0,1]-after-last-tick");
    vcover!(x0.is_nan() && flags & 1 != 0, "witness: NaN attack time, gate on");
    vcover!(x3 == f32::INFINITY && flags & 4 != 0, "witness: infinite release time, gate off");
    vcover!(fs == 100.0, "witness: lowest rate");
}

// @harness prop=C17,C02 tier=quick timeout=1500
// @about progress for every configuration, through the envelope's OWN counter: Adsr::new(fs) for any f32 sample rate in [100, 192000], any finite f32 attack time passed through the real clamp (both symbolic f32), gate_on(), one tick(): the increment tick() installed in the envelope's counter is >= 1 and <= 10*2^24+64 and the counter is 24 bits wide, so by c17_tick_progress every tick of a timed phase either ends it or strictly advances the counter: every attack/decay/release ends after at most 2^24 ticks and tick() cannot overflow
#[kani::proof]
fn c17_increment_positive_and_bounded() {
    let fs: f32 = kani::any();
    kani::assume(fs >= 100.0 && fs <= 192_000.0);
    // any finite requested time, clamped by the real conversion
    let x: f32 = kani::any();
    kani::assume(x.is_finite());
    let t: TimePeriod = x.into();
    let mut a = Adsr::new(fs);
    a.set_input(Input::Attack(t));
    a.gate_on();
    a.tick();
    vassert!(a.phase_accumulator.verif_inc() >= 1, "C17/increment/at-least-one-step-so-every-phase-ends");
    vassert!(a.phase_accumulator.verif_inc() <= 10 * (1 << 24) + 64, "C17/increment/within-the-bound-tick-is-proved-for");
    vassert!(a.phase_accumulator.verif_mask() == ACC_MAX, "C17/counter/24-bits-wide");
    vcover!(x > 1.0e6 && fs == 192_000.0, "witness: slowest phase (huge time, clamped)");
    vcover!(x < 0.0 && fs == 100.0, "witness: fastest phase (negative time, clamped)");
}
