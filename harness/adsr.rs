// Harnesses anchored in src/adsr.rs (mounted as `adsr::verif`, a child module:
// private fields of Adsr / TimePeriod / SustainLevel are visible here).
use super::*;
use crate::phase_accumulator::PhaseAccumulator;

pub(crate) const ACC_MAX: u32 = (1 << 24) - 1;

pub(crate) fn any_unit() -> f32 {
    let v: f32 = kani::any();
    kani::assume(v >= 0.0 && v <= 1.0);
    v
}

pub(crate) fn any_time() -> TimePeriod {
    let v: f32 = kani::any();
    kani::assume(v >= 0.001 && v <= 20.0);
    TimePeriod(v)
}

pub(crate) fn any_state() -> State {
    let k: u8 = kani::any();
    kani::assume(k < 5);
    match k {
        0 => State::AtRest,
        1 => State::Attack,
        2 => State::Decay,
        3 => State::Sustain,
        _ => State::Release,
    }
}

/// Representation invariant of `Adsr` between two public calls (Inv_adsr):
/// levels in [0,1]; counter < 2^24; `last == acc` and no pending rollover flag
/// (tick() consumes the flag and both reset paths zero the pair).
pub(crate) fn any_adsr(fs: f32) -> Adsr {
    let acc: u32 = kani::any();
    kani::assume(acc <= ACC_MAX);
    let inc: u32 = kani::any();
    Adsr {
        attack_time: any_time(),
        decay_time: any_time(),
        sustain_level: SustainLevel(any_unit()),
        release_time: any_time(),
        phase_accumulator: PhaseAccumulator::verif_from_parts(fs, acc, acc, inc, false),
        state: any_state(),
        value_when_gate_on_received: any_unit(),
        value_when_gate_off_received: any_unit(),
        value: any_unit(),
    }
}

pub(crate) fn same_adsr(a: &Adsr, b: &Adsr) -> bool {
    a.attack_time.0.to_bits() == b.attack_time.0.to_bits()
        && a.decay_time.0.to_bits() == b.decay_time.0.to_bits()
        && a.sustain_level.0.to_bits() == b.sustain_level.0.to_bits()
        && a.release_time.0.to_bits() == b.release_time.0.to_bits()
        && a.phase_accumulator == b.phase_accumulator
        && a.state == b.state
        && a.value_when_gate_on_received.to_bits() == b.value_when_gate_on_received.to_bits()
        && a.value_when_gate_off_received.to_bits() == b.value_when_gate_off_received.to_bits()
        && a.value.to_bits() == b.value.to_bits()
}

// =====================================================================
// C20  parameter clamps (adsr part)
// =====================================================================

// @harness prop=C20 tier=quick timeout=120
// @about all 2^32 f32 bit patterns x: f32 -> TimePeriod -> f32 lies in [0.001,20], equals x inside, the nearer bound outside, a bound for NaN
#[kani::proof]
fn c20_time_period_clamp() {
    let x: f32 = kani::any();
    let y: f32 = TimePeriod::from(x).into();
    vassert!(y >= 0.001_f32 && y <= 20.0_f32, "C20/time/in-range");
    if x >= 0.001_f32 && x <= 20.0_f32 {
        vassert!(y == x, "C20/time/identity-inside");
    }
    if x < 0.001_f32 {
        vassert!(y == 0.001_f32, "C20/time/below->min");
    }
    if x > 20.0_f32 {
        vassert!(y == 20.0_f32, "C20/time/above->max");
    }
    if x.is_nan() {
        vassert!(y == 0.001_f32 || y == 20.0_f32, "C20/time/nan->bound");
    }
    vcover!(x.is_nan(), "witness: NaN input");
    vcover!(x == f32::NEG_INFINITY, "witness: -inf input");
    vcover!(x > 20.0_f32 && x.is_finite(), "witness: above range");
    vcover!(x > 0.001_f32 && x < 20.0_f32, "witness: inside");
}

// @harness prop=C20 tier=quick timeout=120
// @about all 2^32 f32 bit patterns x: f32 -> SustainLevel -> f32 lies in [0,1], equals x inside, the nearer bound outside, a bound for NaN
#[kani::proof]
fn c20_sustain_level_clamp() {
    let x: f32 = kani::any();
    let y: f32 = SustainLevel::from(x).into();
    vassert!(y >= 0.0_f32 && y <= 1.0_f32, "C20/sustain/in-range");
    if x >= 0.0_f32 && x <= 1.0_f32 {
        vassert!(y == x, "C20/sustain/identity-inside");
    }
    if x < 0.0_f32 {
        vassert!(y == 0.0_f32, "C20/sustain/below->min");
    }
    if x > 1.0_f32 {
        vassert!(y == 1.0_f32, "C20/sustain/above->max");
    }
    if x.is_nan() {
        vassert!(y == 0.0_f32 || y == 1.0_f32, "C20/sustain/nan->bound");
    }
    vcover!(x.is_nan(), "witness: NaN input");
    vcover!(x < 0.0_f32, "witness: below range");
    vcover!(x > 1.0_f32, "witness: above range");
    vcover!(x > 0.0_f32 && x < 1.0_f32 && x.to_bits() & 0x7f80_0000 == 0, "witness: subnormal inside");
}

// @harness prop=C20 tier=quick timeout=180
// @about any Inv_adsr state (all fields symbolic), any out-of-range or NaN x, any of the 4 inputs: set_input(x) and set_input(nearest bound) leave two copies of the envelope bit-identical in every field, hence identical behaviour ever after; in-range x is stored unchanged; only the addressed parameter changes
#[kani::proof]
fn c20_out_of_range_input_acts_as_bound() {
    let fs: f32 = kani::any();
    kani::assume(fs >= 100.0 && fs <= 192_000.0);
    let a0 = any_adsr(fs);
    let mut a = a0;
    let mut b = a0;
    let x: f32 = kani::any();
    let which: u8 = kani::any();
    kani::assume(which < 4);
    let (lo, hi) = if which == 2 { (0.0_f32, 1.0_f32) } else { (0.001_f32, 20.0_f32) };
    // the bound the statement prescribes (for NaN: either)
    let pick_hi: bool = kani::any();
    let bound = if x > hi {
        hi
    } else if x < lo {
        lo
    } else if x.is_nan() {
        if pick_hi { hi } else { lo }
    } else {
        x
    };
    let (ia, ib) = match which {
        0 => (Input::Attack(x.into()), Input::Attack(bound.into())),
        1 => (Input::Decay(x.into()), Input::Decay(bound.into())),
        2 => (Input::Sustain(x.into()), Input::Sustain(bound.into())),
        _ => (Input::Release(x.into()), Input::Release(bound.into())),
    };
    a.set_input(ia);
    b.set_input(ib);
    if x.is_nan() {
        // NaN may become either bound; the nondeterministic pick must be able to match
        let mut c = a0;
        let other = if pick_hi { lo } else { hi };
        c.set_input(match which {
            0 => Input::Attack(other.into()),
            1 => Input::Decay(other.into()),
            2 => Input::Sustain(other.into()),
            _ => Input::Release(other.into()),
        });
        vassert!(same_adsr(&a, &b) || same_adsr(&a, &c), "C20/adsr/nan-acts-as-a-bound");
    } else {
        vassert!(same_adsr(&a, &b), "C20/adsr/out-of-range-acts-as-bound");
        vassert!(ia == ib, "C20/adsr/input-values-equal");
    }
    // frame: nothing but the addressed parameter moved
    let stored = match which {
        0 => a.attack_time.0,
        1 => a.decay_time.0,
        2 => a.sustain_level.0,
        _ => a.release_time.0,
    };
    if !x.is_nan() {
        vassert!(stored == bound, "C20/adsr/stored-value-is-clamped-input");
    }
    let mut r = a;
    match which {
        0 => r.attack_time = a0.attack_time,
        1 => r.decay_time = a0.decay_time,
        2 => r.sustain_level = a0.sustain_level,
        _ => r.release_time = a0.release_time,
    }
    vassert!(same_adsr(&r, &a0), "C20/adsr/set_input-changes-only-its-parameter");
    vcover!(x > 20.0 && which == 0, "witness: attack above range");
    vcover!(x < 0.0 && which == 2, "witness: sustain below range");
    vcover!(x.is_nan() && which == 3, "witness: release NaN");
    vcover!(x == 0.5 && which == 1, "witness: decay in range");
}
