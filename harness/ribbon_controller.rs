// Harnesses anchored in src/ribbon_controller.rs (mounted as `ribbon_controller::verif`).
use super::*;

/// Press threshold the property prescribes: the whole capture buffer filled by one unbroken
/// in-range run, after the settling samples have been skipped (the sample that completes the
/// settling time is itself the first one captured).
const fn press_len(cap: usize, ignore: usize) -> usize {
    cap + (if ignore >= 1 { ignore } else { 1 }) - 1
}

/// Counters the implementation must hold after an unbroken in-range run of length r (Inv_rib).
fn counters_for_run(r: usize, cap: usize, ignore: usize) -> (usize, usize) {
    let received = if r < ignore { r } else { ignore };
    let first_written = if ignore >= 1 { ignore } else { 1 }; // index (1-based) of the first captured sample
    let written = if r < first_written { 0 } else if r - first_written + 1 > cap { cap } else { r - first_written + 1 };
    (received, written)
}

// =====================================================================
// C15  press gating: inductive step on poll()
// =====================================================================

// @family prop=C15,C17,C16 name=c15_poll_step macro=c15_poll_step n=3 quick=0,1 thorough=0,1,2 tseeded=0 timeout=3000
// @about slice = sample rate {0: 1 kHz (capacity 18, settle 1, lift 2), 1: 2 kHz (35, 2, 4), 2: 10 kHz (171, 10, 20)}: any controller state consistent with an unbroken in-range run of any length r (counters tied to r, press flag <=> r >= capacity+settle-1, both edge latches and the held value symbolic, in-range boundary symbolic in (0,1]; buffer contents do not influence the flags), one poll() with any f32 sample in [0,1]: the run becomes r+1 (in-range) or 0 (out-of-range) and the counters, press flag, edge latches (set exactly on a change of the press flag, otherwise unchanged) and the retained value (unchanged unless a press is being reported) are those the run-length model prescribes; edge getters return the latch and clear only it
macro_rules! c15_poll_step {
    ($name:ident, $k:expr) => {
        #[kani::proof]
        #[kani::unwind(175)]
        fn $name() {
            const FS: u32 = [1_000, 2_000, 10_000][$k];
            const CAP: usize = sample_rate_to_capacity(FS);
            let mut rib: RibbonController<CAP> = RibbonController::new(FS as f32, 20.0e3, 820.0, 1.0e6);
            let ignore = rib.num_to_ignore_up_front;
            let l = press_len(CAP, ignore);
            vassert!(CAP == (FS as usize * 15) / 1000 + (FS as usize * 2) / 1000 + 1, "C15/capacity/helper-formula");
            // arbitrary pre-state reached by an unbroken run of length r (r saturates at L: longer runs look the same)
            let r: usize = kani::any();
            kani::assume(r <= l + 1);
            let (rec, wr) = counters_for_run(r, CAP, ignore);
            rib.num_samples_received = rec;
            rib.num_samples_written = wr;
            rib.finger_is_pressing = r >= l;
            rib.finger_just_pressed = kani::any();
            rib.finger_just_released = kani::any();
            let bound: f32 = kani::any();
            kani::assume(bound > 0.0 && bound <= 1.0);
            rib.finger_press_high_boundary = bound;
            let held: f32 = kani::any();
            kani::assume(held >= 0.0 && held <= 1.0);
            rib.current_val = held;
            let jp = rib.finger_just_pressed;
            let jr = rib.finger_just_released;
            let pressing = rib.finger_is_pressing;

            let s: f32 = kani::any();
            kani::assume(s >= 0.0 && s <= 1.0);
            let in_range = s < bound;
            rib.poll(s);

            let r2 = if in_range { r + 1 } else { 0 };
            let (rec2, wr2) = counters_for_run(r2, CAP, ignore);
            vassert!(rib.finger_is_pressing() == (r2 >= l), "C15/poll/press<=>unbroken-run-fills-buffer-after-settling");
            vassert!(rib.num_samples_received == rec2 && rib.num_samples_written == wr2, "C15/poll/run-counters-restart-on-every-out-of-range-sample");
            if !in_range {
                vassert!(!rib.finger_is_pressing(), "C15/poll/out-of-range-sample-ends-press-at-once");
            }
            vassert!(rib.finger_just_pressed == (jp || (!pressing && r2 >= l)), "C15/poll/just-pressed-latched-exactly-on-rising-change");
            vassert!(rib.finger_just_released == (jr || (pressing && r2 < l)), "C15/poll/just-released-latched-exactly-on-falling-change");
            if !(r2 >= l) {
                vassert!(rib.current_val.to_bits() == held.to_bits(), "C16/poll/value-retained-while-not-pressing");
            }
            // getters: report once, clear only themselves
            let got_p = rib.finger_just_pressed();
            vassert!(got_p == (jp || (!pressing && r2 >= l)) && !rib.finger_just_pressed(), "C15/just_pressed/true-exactly-once");
            let got_r = rib.finger_just_released();
            vassert!(got_r == (jr || (pressing && r2 < l)) && !rib.finger_just_released(), "C15/just_released/true-exactly-once");
            vassert!(rib.finger_is_pressing() == (r2 >= l), "C15/getters/do-not-touch-press-flag");
            vcover!(r + 1 == l && in_range, "witness: the sample that completes the capture");
            vcover!(r > 0 && r < l && !in_range, "witness: short tap interrupted");
            vcover!(pressing && !in_range, "witness: finger lifted");
            vcover!(r == 0 && in_range, "witness: first sample of a run");
        }
    };
}

// =====================================================================
// C15  bounded histories from new(): taps never add up
// =====================================================================

// @family prop=C15 name=c15_history macro=c15_history n=3 quick=0,1 thorough=0,1 tseeded=0 timeout=3000
// @about public API only, slice = sample rate {0: 200 Hz (capacity 4, no settling skip, press after 4 in-range samples), 1: 500 Hz (capacity 9, press after 9), 2: 1 kHz (18)}: fresh controller, a history of 2*L+3 polls in which every sample is independently in range or out of range (symbolic choice per poll; values 0.25 / 1.0), edge getters polled at a symbolic position: after every poll finger_is_pressing() equals 'current unbroken in-range run >= L'; so isolated glitches and taps shorter than the capture time never produce a press however they are spaced; each edge getter returns true exactly once per change. The code is generic in the capacity; the larger capacities are covered by the inductive step c15_poll_step
macro_rules! c15_history {
    ($name:ident, $k:expr) => {
        #[kani::proof]
        #[kani::unwind(42)]
        fn $name() {
            const FS: u32 = [200, 500, 1_000][$k];
            const CAP: usize = sample_rate_to_capacity(FS);
            let mut rib: RibbonController<CAP> = RibbonController::new(FS as f32, 20.0e3, 820.0, 1.0e6);
            let l = press_len(CAP, rib.num_to_ignore_up_front);
            let pattern: u64 = kani::any();
            let poll_at: usize = kani::any();
            let mut run = 0usize;
            let mut was = false;
            let mut pending_press = false;
            let mut pending_release = false;
            let mut broken_runs_total = 0usize;
            let mut i = 0;
            while i < 2 * CAP + 3 {
                let inr = (pattern >> i) & 1 == 1;
                rib.poll(if inr { 0.25 } else { 1.0 });
                run = if inr { run + 1 } else { 0 };
                if inr { broken_runs_total += 1; }
                let now = run >= l;
                vassert!(rib.finger_is_pressing() == now, "C15/history/press<=>current-unbroken-run>=capture-length");
                if now && !was { pending_press = true; }
                if !now && was { pending_release = true; }
                if i == poll_at {
                    vassert!(rib.finger_just_pressed() == pending_press, "C15/history/just-pressed-once-per-press");
                    vassert!(rib.finger_just_released() == pending_release, "C15/history/just-released-once-per-release");
                    pending_press = false;
                    pending_release = false;
                }
                was = now;
                i += 1;
            }
            vassert!(rib.finger_just_pressed() == pending_press, "C15/history/just-pressed-once-per-press");
            vassert!(rib.finger_just_released() == pending_release, "C15/history/just-released-once-per-release");
            vcover!(was, "witness: history ends in a press");
            vcover!(!was && broken_runs_total >= l + 2 && poll_at > 2 * CAP + 3, "witness: enough in-range samples for a press, but never unbroken");
        }
    };
}

// =====================================================================
// C16  value: mean of the current press only
// =====================================================================

fn corrected(m: f64, ec: f64) -> f64 {
    m - (m - m * m) * ec
}

// @family prop=C16 name=c16_value_step macro=c16_value_step n=3 quick=0 thorough=0 tseeded=0 timeout=3000
// @about the poll that reports / refreshes the value, slice = sample rate {500 Hz: capacity 9, newest 1 sample excluded; (1 kHz: 18 / 2 and 2 kHz: 35 / 4 exist as slices 1, 2 but the 1 kHz one did not finish in 50 min and is not part of either tier)}, default resistor triple. State built without branching: the capture buffer receives 3 symbolic LEFT-OVER samples of an earlier press and then the capacity-1 samples of the current unbroken run (HistoryBuffer::write, in order), run counters as c15_poll_step proves them for a run of that length, press flag symbolic (first report or refresh); then one real poll() with the sample that completes the capture. Controller B differs from A in the left-over samples, in the newest samples that fall in the finger-lift allowance and in the completing sample: both report the press and value() is bit-identical (depends on no sample of an earlier press and on none of the excluded newest samples), lies in [0,1]; run samples on a 2^-10 grid in the in-range interval
macro_rules! c16_value_step {
    ($name:ident, $k:expr) => {
        #[kani::proof]
        #[kani::unwind(40)]
        fn $name() {
            const FS: u32 = [500, 1_000, 2_000][$k];
            const CAP: usize = sample_rate_to_capacity(FS);
            let mut a: RibbonController<CAP> = RibbonController::new(FS as f32, 20.0e3, 820.0, 1.0e6);
            let mut b: RibbonController<CAP> = RibbonController::new(FS as f32, 20.0e3, 820.0, 1.0e6);
            let lift = a.num_to_discard_at_end;
            let ignore = a.num_to_ignore_up_front;
            let junk_a: [u16; 3] = kani::any();
            let junk_b: [u16; 3] = kani::any();
            let run: [u16; CAP] = kani::any();
            let newest_b: [u16; CAP] = kani::any();
            let mut i = 0;
            while i < 3 {
                a.buff.write((junk_a[i] & 0x3ff) as f32 / 1024.0);
                b.buff.write((junk_b[i] & 0x3ff) as f32 / 1024.0);
                i += 1;
            }
            let mut i = 0;
            while i < CAP - 1 {
                kani::assume(run[i] < 960 && newest_b[i] < 960); // in range: 960/1024 < boundary (0.9606)
                let s = run[i] as f32 / 1024.0;
                a.buff.write(s);
                // B: the samples that will fall into the finger-lift allowance differ
                // (the completing sample is the newest; the lift-1 before it are the last writes here)
                let in_allowance = i + lift >= CAP;
                b.buff.write(if in_allowance { newest_b[i] as f32 / 1024.0 } else { s });
                i += 1;
            }
            kani::assume(run[CAP - 1] < 960 && newest_b[CAP - 1] < 960);
            let pressing: bool = kani::any();
            a.num_samples_received = ignore;
            a.num_samples_written = CAP - 1;
            a.finger_is_pressing = false;
            b.num_samples_received = ignore;
            b.num_samples_written = CAP - 1;
            b.finger_is_pressing = false;
            if pressing {
                // a press that is already being reported: counters saturated, value refreshed on every poll
                a.num_samples_written = CAP;
                a.finger_is_pressing = true;
                b.num_samples_written = CAP;
                b.finger_is_pressing = true;
            }
            a.poll(run[CAP - 1] as f32 / 1024.0);
            b.poll(if lift >= 1 { newest_b[CAP - 1] } else { run[CAP - 1] } as f32 / 1024.0);
            vassert!(a.finger_is_pressing() && b.finger_is_pressing(), "C16/press-reported-after-full-capture");
            let v = a.value();
            vassert!(v.to_bits() == b.value().to_bits(), "C16/value/independent-of-earlier-press-and-of-excluded-newest-samples");
            vassert!(v >= 0.0 && v <= 1.0, "C16/value/in-[0,1]");
            vcover!(junk_a[0] != junk_b[0], "witness: left-over samples differ");
            vcover!(lift >= 1 && newest_b[CAP - 1] != run[CAP - 1], "witness: excluded newest sample differs");
            vcover!(pressing, "witness: value refreshed during a press");
        }
    };
}

// @harness prop=C16 tier=quick timeout=1800
// @about public API only, 200 Hz (capacity 4: the mean of 4 samples), default resistor triple: two fresh controllers fed an unbroken run of 4 in-range samples on a 2^-4 grid (0, 1/16, .. 14/16), identical except that ONE sample (symbolic index) is larger in the second run: value() of the first lies between the values the REAL controller reports for the constant runs min,min,min,min and max,max,max,max (+-4 ulp), and the second value is not lower (2 ulp)
#[kani::proof]
#[kani::unwind(7)]
fn c16_value_between_min_max_and_monotone() {
    const CAP: usize = sample_rate_to_capacity(200);
    let mut a: RibbonController<CAP> = RibbonController::new(200.0, 20.0e3, 820.0, 1.0e6);
    let mut b: RibbonController<CAP> = RibbonController::new(200.0, 20.0e3, 820.0, 1.0e6);
    let mut cmin: RibbonController<CAP> = RibbonController::new(200.0, 20.0e3, 820.0, 1.0e6);
    let mut cmax: RibbonController<CAP> = RibbonController::new(200.0, 20.0e3, 820.0, 1.0e6);
    let raw: [u8; CAP] = kani::any();
    let idx: usize = kani::any();
    let up: u8 = kani::any();
    kani::assume(idx < CAP && up < 15);
    let mut lo = 15u8;
    let mut hi = 0u8;
    let mut i = 0;
    while i < CAP {
        kani::assume(raw[i] < 15);
        if raw[i] < lo { lo = raw[i]; }
        if raw[i] > hi { hi = raw[i]; }
        i += 1;
    }
    kani::assume(up >= raw[idx]);
    let mut i = 0;
    while i < CAP {
        a.poll(raw[i] as f32 / 16.0);
        b.poll(if i == idx { up } else { raw[i] } as f32 / 16.0);
        cmin.poll(lo as f32 / 16.0);
        cmax.poll(hi as f32 / 16.0);
        i += 1;
    }
    vassert!(a.finger_is_pressing() && b.finger_is_pressing(), "C16/press-reported-after-full-capture");
    let tol = 4.0 * 1.1920929e-7;
    vassert!(a.value() >= cmin.value() - tol && a.value() <= cmax.value() + tol, "C16/value/between-corrected-min-and-max-of-contributing-samples");
    vassert!(b.value() >= a.value() - 2.0 * 1.1920929e-7, "C16/value/does-not-decrease-when-a-contributing-sample-increases");
    vcover!(up > raw[idx] && b.value() > a.value(), "witness: value rose");
    vcover!(lo < hi, "witness: samples differ");
}

// @harness prop=C16,C17 tier=quick timeout=1200
// @about resistor triples: any softpot 1k..=100k, dropper 100..=10k, pull-up >= softpot+dropper (up to 10M), sample rate 1 kHz: new() yields an in-range boundary in (0,1) equal to softpot/(softpot+dropper) within 2 ulp and a correction constant in (0,1]; with that constant the correction m - (m - m^2)*c maps any mean m in [0, boundary] into [0, boundary] (so value() stays in [0,1]) -- checked on the real error_estimate() for m on a 2^-12 grid
#[kani::proof]
fn c16_resistor_triples_keep_value_in_range() {
    let softpot: f32 = kani::any();
    let dropper: f32 = kani::any();
    let pullup: f32 = kani::any();
    kani::assume(softpot >= 1.0e3 && softpot <= 100.0e3);
    kani::assume(dropper >= 100.0 && dropper <= 10.0e3);
    kani::assume(pullup >= softpot + dropper && pullup <= 10.0e6);
    const CAP: usize = sample_rate_to_capacity(1_000);
    let rib: RibbonController<CAP> = RibbonController::new(1_000.0, softpot, dropper, pullup);
    let bnd = rib.finger_press_high_boundary;
    vassert!(bnd > 0.0 && bnd < 1.0, "C16/new/boundary-in-(0,1)");
    vassert!(rib.error_const > 0.0 && rib.error_const <= 1.0, "C16/new/correction-constant-in-(0,1]");
    let mk: u16 = kani::any();
    kani::assume(mk <= 4096);
    let m = mk as f32 / 4096.0;
    kani::assume(m <= bnd);
    let c = m - rib.error_estimate(m);
    vassert!(c >= 0.0 && c <= bnd, "C16/correction/keeps-mean-inside-[0,boundary]");
    vcover!(pullup == softpot + dropper, "witness: weakest allowed pull-up");
    vcover!(mk == 0, "witness: position 0");
}

// @harness prop=C16,C15,C17 tier=quick timeout=900
// @about every supported integer sample rate fs in 100..=192000 Hz (symbolic): new() derives the settling skip as floor(fs * 1 ms) and the finger-lift allowance (newest samples excluded from the mean) as floor(fs * 2 ms), exactly the counts sample_rate_to_capacity(fs) reserves room for (capacity = floor(fs * 15 ms) + allowance + 1), so the mean always covers capacity - allowance samples and never reaches into the allowance; no overflow in the conversions
#[kani::proof]
fn c16_allowance_counts_match_sample_rate() {
    let fs: u32 = kani::any();
    kani::assume(fs >= 100 && fs <= 192_000);
    const CAP: usize = sample_rate_to_capacity(1_000);
    let rib: RibbonController<CAP> = RibbonController::new(fs as f32, 20.0e3, 820.0, 1.0e6);
    let settle = (fs as u64 * 1_000 / 1_000_000) as usize;
    let lift = (fs as u64 * 2_000 / 1_000_000) as usize;
    vassert!(rib.num_to_ignore_up_front == settle, "C15/new/settling-skip-is-1ms-of-samples");
    vassert!(rib.num_to_discard_at_end == lift, "C16/new/finger-lift-allowance-is-2ms-of-samples");
    let cap = sample_rate_to_capacity(fs);
    vassert!(cap == (fs as u64 * 15_000 / 1_000_000) as usize + lift + 1, "C16/capacity/reserves-the-allowance");
    vassert!(cap > lift, "C16/capacity/mean-covers-at-least-one-sample");
    vcover!(fs == 2_500, "witness: 2.5 kHz");
    vcover!(fs == 192_000, "witness: 192 kHz");
    vcover!(fs % 1000 == 999, "witness: just below a whole kHz");
}

// @harness prop=C16,C17 tier=quick timeout=1200
// @about resistor triples through the real poll(): four concrete triples (softpot, dropper, pull-up) chosen symbolically -- the documented default (20k, 820, 1M) and three with the WEAKEST allowed pull-up (= softpot + dropper): (20k, 820, 20820), (10k, 100, 10100), (100k, 10k, 110k) -- at 200 Hz (capacity 4): the capture buffer is filled with a constant in-range run at position m (2^-6 grid; mean = m exactly), counters as c15_poll_step proves them, one real poll(m) completes the capture: value() lies in [0,1]; a second controller with the same resistors pressed at a higher position m2 >= m does not report a lower value (2 ulp) -- the pull-up correction is applied to the same quantity it is subtracted from. (With the triple fully symbolic the query -- three symbolic float divisions and two products -- did not finish in 15 min; c16_resistor_triples_keep_value_in_range covers every triple at the level of error_estimate().)
#[kani::proof]
#[kani::unwind(7)]
fn c16_value_in_range_and_monotone_for_any_resistor_triple() {
    let which: u8 = kani::any();
    kani::assume(which < 4);
    let (softpot, dropper, pullup): (f32, f32, f32) = match which {
        0 => (20.0e3, 820.0, 1.0e6),
        1 => (20.0e3, 820.0, 20_820.0),
        2 => (10.0e3, 100.0, 10_100.0),
        _ => (100.0e3, 10.0e3, 110.0e3),
    };
    const CAP: usize = sample_rate_to_capacity(200);
    let mut a: RibbonController<CAP> = RibbonController::new(200.0, softpot, dropper, pullup);
    let mut b: RibbonController<CAP> = RibbonController::new(200.0, softpot, dropper, pullup);
    let k1: u8 = kani::any();
    let k2: u8 = kani::any();
    kani::assume(k1 <= k2 && k2 <= 64);
    let (m1, m2) = (k1 as f32 / 64.0, k2 as f32 / 64.0);
    kani::assume(m2 < a.finger_press_high_boundary);
    let mut i = 0;
    while i < CAP - 1 {
        a.buff.write(m1);
        b.buff.write(m2);
        i += 1;
    }
    a.num_samples_received = a.num_to_ignore_up_front;
    a.num_samples_written = CAP - 1;
    b.num_samples_received = b.num_to_ignore_up_front;
    b.num_samples_written = CAP - 1;
    a.poll(m1);
    b.poll(m2);
    vassert!(a.finger_is_pressing() && b.finger_is_pressing(), "C16/press-reported-after-full-capture");
    vassert!(a.value() >= 0.0 && a.value() <= 1.0 && b.value() >= 0.0 && b.value() <= 1.0, "C16/value/in-[0,1]");
    vassert!(b.value() >= a.value() - 2.0 * 1.1920929e-7, "C16/value/does-not-decrease-when-a-contributing-sample-increases");
    vcover!(which == 1 && k1 == 1, "witness: weakest allowed pull-up, press near the bottom");
    vcover!(k1 < k2, "witness: two positions");
}
