// Harnesses anchored in src/lfo.rs (mounted as `lfo::verif`).
use super::*;
use crate::phase_accumulator::PhaseAccumulator;

const N24: u32 = 1 << 24;
const MASK: u32 = N24 - 1;

/// oscillator at phase `acc`; the bookkeeping field `last_accumulator` is arbitrary (set_phase()
/// leaves it at 0 while the phase is not): no output may depend on it
fn lfo_at(acc: u32) -> Lfo {
    let last: u32 = kani::any();
    kani::assume(last <= MASK);
    let mut l = Lfo::new(1000.0);
    l.phase_accumulator = PhaseAccumulator::verif_from_parts(1000.0, acc, last, 0, false);
    l
}

fn any_acc() -> u32 {
    let acc: u32 = kani::any();
    kani::assume(acc <= MASK);
    acc
}

// =====================================================================
// C10  waveforms: range, exact shapes, phase relations
// =====================================================================

// @harness prop=C10 tier=quick timeout=300
// @about all 2^24 phase-counter values: up-saw == 2*acc/2^24 - 1 exactly (f64 reference, exact), down-saw is its exact negation, square is +1 for acc < 2^23 else -1, triangle equals the exact piecewise-linear wave (0 at 0, +1 at 1/4, -1 at 3/4), every shape in [-1,1]; get() leaves the oscillator bit-identical
#[kani::proof]
fn c10_exact_shapes() {
    let acc = any_acc();
    let lfo = lfo_at(acc);
    let before = lfo;
    let p = acc as f64 / 16777216.0; // exact
    let up = lfo.get(Waveshape::UpSaw);
    let down = lfo.get(Waveshape::DownSaw);
    let sq = lfo.get(Waveshape::Square);
    let tri = lfo.get(Waveshape::Triangle);
    vassert!(up as f64 == 2.0 * p - 1.0, "C10/upsaw/exactly-2*phase-1");
    vassert!(down == -up, "C10/downsaw/exact-negation");
    vassert!(sq == if acc < (1 << 23) { 1.0 } else { -1.0 }, "C10/square/+1-first-half,-1-second");
    let tri_ref = if p < 0.25 { 4.0 * p } else if p < 0.75 { 2.0 - 4.0 * p } else { 4.0 * p - 4.0 };
    vassert!(tri as f64 == tri_ref, "C10/triangle/exact-piecewise-linear");
    vassert!(up >= -1.0 && up <= 1.0 && down >= -1.0 && down <= 1.0 && tri >= -1.0 && tri <= 1.0,
        "C10/range/saws-and-triangle-in-[-1,1]");
    vassert!(lfo == before, "C10/get/does-not-disturb-state");
    vcover!(acc == 0, "witness: phase 0");
    vcover!(acc == 1 << 22, "witness: quarter cycle");
    vcover!(acc == 3 << 22, "witness: three quarters");
    vcover!(acc == MASK, "witness: last phase");
}

// @harness prop=C10 tier=quick timeout=300
// @about all 2^24 phase-counter values: sine in [-1,1]; sine within 0.0125 of sin(2*pi*phase) for every phase of the cell, decided as |y - SIN_MID[cell]| <= 0.0125 - SIN_DEV where SIN_MID is sin at the cell midpoint and SIN_DEV the largest in-cell deviation of sin from it (oracle tables generated at run time by lib/oracle.py from math.sin)
#[kani::proof]
fn c10_sine_range_and_fidelity() {
    let acc = any_acc();
    let lfo = lfo_at(acc);
    let y = lfo.get(Waveshape::Sine);
    let i = (acc >> 14) as usize;
    vassert!(y >= -1.0 && y <= 1.0, "C10/sine/in-[-1,1]");
    let d = y - SIN_MID[i];
    vassert!(d <= 0.0125 - SIN_DEV && d >= -(0.0125 - SIN_DEV), "C10/sine/within-0.0125-of-sin(2pi*phase)");
    vcover!(i == 1023 && acc & 0x3fff == 0x3fff, "witness: end of last cell");
    vcover!(i == 1022, "witness: cell 1022");
    vcover!(i == 255, "witness: peak cell");
}

// =====================================================================
// C11  LFO-level phase arithmetic (counter-level facts are in phase_accumulator.rs)
// =====================================================================

// @harness prop=C11 tier=quick timeout=300
// @about any oscillator state (acc < 2^24, any increment <= 2^24), any f32 frequency: set_frequency leaves the phase untouched (no phase jump); tick advances acc by exactly the increment mod 2^24; reset gives phase 0 and keeps the increment
#[kani::proof]
fn c11_lfo_ops_frame() {
    let acc = any_acc();
    let inc: u32 = kani::any();
    kani::assume(inc <= N24);
    let fs: f32 = kani::any();
    kani::assume(fs >= 100.0 && fs <= 192_000.0);
    let mut lfo = Lfo::new(fs);
    lfo.phase_accumulator = PhaseAccumulator::verif_from_parts(fs, acc, acc, inc, false);
    let f: f32 = kani::any();
    kani::assume(f >= 0.0 && f <= fs);
    let mut a = lfo;
    a.set_frequency(f);
    vassert!(a.phase_accumulator.verif_acc() == acc, "C11/set_frequency/no-phase-jump");
    vassert!(a.get(Waveshape::UpSaw) == lfo.get(Waveshape::UpSaw), "C11/set_frequency/output-unchanged-until-next-tick");
    let mut b = lfo;
    b.tick();
    vassert!(b.phase_accumulator.verif_acc() as u64 == (acc as u64 + inc as u64) % (N24 as u64),
        "C11/tick/advances-by-increment-mod-1");
    let mut c = lfo;
    c.reset();
    vassert!(c.phase_accumulator.verif_acc() == 0 && c.get(Waveshape::UpSaw) == -1.0 && c.get(Waveshape::Sine) == 0.0
        && c.get(Waveshape::Triangle) == 0.0, "C11/reset/phase-0");
    vassert!(c.phase_accumulator.verif_inc() == inc, "C11/reset/keeps-frequency");
    vcover!(acc as u64 + inc as u64 >= N24 as u64, "witness: wrap on tick");
    vcover!(f == fs, "witness: f == fs");
    vcover!(f == 0.0, "witness: f == 0");
}

// =====================================================================
// C12  continuity of triangle and sine, incl. the wrap
// =====================================================================

/// exact triangle in units of 2^-22: t(a) for the counter value a
fn tri_units(a: u32) -> i64 {
    let a = a as i64;
    if a < (1 << 22) { a } else if a < 3 * (1 << 22) { (1 << 23) - a } else { a - (1 << 24) }
}

// @harness prop=C12 tier=quick timeout=300
// @about any starting phase (all 2^24), any per-tick increment 0..=2^24, one real tick(): the triangle before and after equals the exact integer reference t(acc)/2^22 (float ops are exact here), and |t(acc') - t(acc)| <= cyclic counter distance; hence |tri' - tri| <= 4 * phase step exactly, for every increment and across the wrap (two-line derivation: tri = t/2^22, step = dist/2^24)
#[kani::proof]
fn c12_triangle_exact_reference_lipschitz() {
    let acc = any_acc();
    let inc: u32 = kani::any();
    kani::assume(inc <= N24);
    let mut lfo = Lfo::new(1000.0);
    lfo.phase_accumulator = PhaseAccumulator::verif_from_parts(1000.0, acc, acc, inc, false);
    let a = lfo.get(Waveshape::Triangle) as f64;
    lfo.tick();
    let acc2 = lfo.phase_accumulator.verif_acc();
    let b = lfo.get(Waveshape::Triangle) as f64;
    vassert!(a == tri_units(acc) as f64 / 4194304.0, "C12/triangle/equals-exact-reference-before-tick");
    vassert!(b == tri_units(acc2) as f64 / 4194304.0, "C12/triangle/equals-exact-reference-after-tick");
    let fwd = (inc % N24) as i64;
    let dist = if fwd <= (1 << 23) { fwd } else { (1 << 24) - fwd };
    let dt = tri_units(acc2) - tri_units(acc);
    vassert!(dt <= dist && dt >= -dist, "C12/triangle/change<=4*phase-step");
    vcover!(acc as u64 + inc as u64 >= N24 as u64 && inc < 100, "witness: small step across the wrap");
    vcover!(inc == 1, "witness: smallest increment");
    vcover!(inc == N24, "witness: whole cycle per tick");
}

// @harness prop=C12 tier=thorough timeout=2400
// @about the literal statement in one query: any starting phase (all 2^24), any per-tick increment 0..=2^24: |tri(acc') - tri(acc)| <= 4 * cyclic phase step, exactly (f64), including steps across the cycle wrap
#[kani::proof]
fn c12_triangle_any_increment() {
    let acc = any_acc();
    let inc: u32 = kani::any();
    kani::assume(inc <= N24);
    let mut lfo = Lfo::new(1000.0);
    lfo.phase_accumulator = PhaseAccumulator::verif_from_parts(1000.0, acc, acc, inc, false);
    let a = lfo.get(Waveshape::Triangle) as f64;
    lfo.tick();
    let b = lfo.get(Waveshape::Triangle) as f64;
    // cyclic phase distance covered by the tick
    let fwd = (inc % N24) as f64 / 16777216.0;
    let step = if fwd <= 0.5 { fwd } else { 1.0 - fwd };
    let d = b - a;
    vassert!(d <= 4.0 * step && d >= -4.0 * step, "C12/triangle/change<=4*phase-step");
    vcover!(acc as u64 + inc as u64 >= N24 as u64 && inc < 100, "witness: small step across the wrap");
    vcover!(inc == 1, "witness: smallest increment");
}

/// 2*pi*1.002*2^-24 (one counter step) + two f32 ulps (of 1.0)
const SINE_ADJ_BOUND: f64 = 6.295751677796366 / 16777216.0 + 2.0 * 1.1920928955078125e-7;

// @family prop=C12 name=c12_sine_slice n=256 quick=0,63,64,127,128,191,192,254,255 seeded=8 timeout=900
// @about slice k = the 2^16 consecutive counter values [k*2^16,(k+1)*2^16) (4 table cells), acc symbolic in the slice: (a) |sine(acc) - I(acc)| <= 2^-23 where I is the exact (f64) linear interpolant of the table with the neighbour wrapping to entry 0 after entry 1023 and the in-cell fraction low14/2^14; (b) adjacent counter values (smallest increment, incl. the step from the last value of the cycle to 0): |sine(acc+1) - sine(acc)| <= 2*pi*1.002*2^-24 + 2 ulp. quick: boundary slices (start, quarter points, wrap) + VERIF_SEED-chosen; thorough: all 256 = all 2^24 values
macro_rules! c12_sine_slice {
    ($name:ident, $k:expr) => {
        #[kani::proof]
        fn $name() {
            let low: u32 = kani::any();
            kani::assume(low < (1 << 16));
            let acc: u32 = (($k as u32) << 16) | low;
            let y = lfo_at(acc).get(Waveshape::Sine);
            let i = (acc >> 14) as usize;
            let t0 = lookup_tables::SINE_TABLE[i] as f64;
            let t1 = lookup_tables::SINE_TABLE[(i + 1) % 1024] as f64;
            let fr = (acc & 0x3fff) as f64 / 16384.0;
            let interp = t0 + (t1 - t0) * fr;
            let e = y as f64 - interp;
            vassert!(e <= 1.1920928955078125e-7 && e >= -1.1920928955078125e-7,
                "C12/sine/is-the-wrapping-linear-interpolant-of-the-table");
            let y2 = lfo_at((acc + 1) & MASK).get(Waveshape::Sine);
            let d = y2 as f64 - y as f64;
            vassert!(d <= SINE_ADJ_BOUND && d >= -SINE_ADJ_BOUND,
                "C12/sine/adjacent-phases-differ<=2pi*1.002*step+2ulp");
            vcover!(acc & 0x3fff == 0x3fff, "witness: last value of a cell (pair crosses a cell boundary)");
            vcover!(low == 0xffff, "witness: last value of the slice");
        }
    };
}

// @harness prop=C12 tier=quick timeout=300
// @about all 2^24 phase-counter values at once (cheap range-class query): the sine output lies between the two table points of its cell (+-2^-23), where the upper neighbour of the last cell wraps to entry 0 -- a necessary condition of obligation (a) of the slices that covers every phase in the quick tier
#[kani::proof]
fn c12_sine_between_cell_neighbours() {
    let acc = any_acc();
    let y = lfo_at(acc).get(Waveshape::Sine);
    let i = (acc >> 14) as usize;
    let t0 = lookup_tables::SINE_TABLE[i];
    let t1 = lookup_tables::SINE_TABLE[(i + 1) % 1024];
    let (lo, hi) = if t0 < t1 { (t0, t1) } else { (t1, t0) };
    vassert!(y >= lo - 1.1920929e-7 && y <= hi + 1.1920929e-7, "C12/sine/between-the-two-table-points-of-its-cell");
    vcover!(i == 1023 && acc & 0x3fff == 0x3fff, "witness: end of last cell");
    vcover!(i == 1022, "witness: cell 1022");
}

// @harness prop=C12 tier=quick timeout=300
// @about table facts as read through the code's constants: every cell of the sine table, incl. the wrap cell 1023 -> 0, has |T[(i+1)%1024] - T[i]| * 1024 <= 2*pi*1.002 (so the exact interpolant I has slope <= 2*pi*1.002 per cycle everywhere); with obligation (a) of the slices this bounds every larger increment: |sine(a') - sine(a)| <= 2*pi*1.002*step + 2*2^-23
#[kani::proof]
fn c12_sine_table_slopes() {
    let i: usize = kani::any();
    kani::assume(i < 1024);
    let t0 = lookup_tables::SINE_TABLE[i] as f64;
    let t1 = lookup_tables::SINE_TABLE[(i + 1) % 1024] as f64;
    let s = (t1 - t0) * 1024.0;
    vassert!(s <= 6.295751677796366 && s >= -6.295751677796366, "C12/sine-table/cell-slope<=2pi*1.002");
    vassert!(lookup_tables::SINE_LUT_SIZE == 1024, "C12/sine-table/size-1024");
    vcover!(i == 1023, "witness: wrap cell");
}

// =====================================================================
// C17  LFO public operations: no panic
// =====================================================================

// @harness prop=C17,C11 tier=quick timeout=1500
// @about public API only (set_phase excepted: its float `%` is decided by the MIR->SMT engine, which shows the counter stays < 2^24): Lfo::new(fs) for any f32 fs in [100, 192000], set_frequency(f) for any f32 f in [0, fs], up to three ticks, reset, all five get() calls: no panic, no overflow, no out-of-bounds table index; the counter stays below 2^24 and every output in [-1,1]
#[kani::proof]
fn c17_lfo_public_ops_no_panic() {
    let fs: f32 = kani::any();
    kani::assume(fs >= 100.0 && fs <= 192_000.0);
    let f: f32 = kani::any();
    kani::assume(f >= 0.0 && f <= fs);
    let mut l = Lfo::new(fs);
    l.set_frequency(f);
    vassert!(l.phase_accumulator.verif_inc() <= N24, "C17/lfo/increment-at-most-one-cycle");
    l.tick();
    l.tick();
    let flags: u8 = kani::any();
    if flags & 1 != 0 { l.reset(); }
    l.tick();
    vassert!(l.phase_accumulator.verif_acc() <= MASK, "C17/lfo/counter-below-2^24");
    let s = l.get(Waveshape::Sine);
    let t = l.get(Waveshape::Triangle);
    let u = l.get(Waveshape::UpSaw);
    let d = l.get(Waveshape::DownSaw);
    let q = l.get(Waveshape::Square);
    vassert!(s >= -1.0 && s <= 1.0 && t >= -1.0 && t <= 1.0 && u >= -1.0 && u <= 1.0 && d >= -1.0 && d <= 1.0
        && (q == 1.0 || q == -1.0), "C17/lfo/outputs-in-[-1,1]");
    vcover!(f == fs, "witness: f == fs");
    vcover!(f > 0.0 && f < 1.0e-30, "witness: tiny frequency");
}

// @harness prop=C11 tier=quick timeout=900
// @about a frequency change takes effect from the next tick, however small: public API, Lfo::new(1000 Hz), set_frequency(f1) then set_frequency(f2) with f1, f2 on the grid k/4096 Hz (k < 2^16: 0 .. 16 Hz, steps of 0.00024 Hz), then one tick from phase 0: the phase advanced by an increment inside the accuracy window of f2 (inc*fs against 2^24*f2, exact in f64) -- the second request is never dropped or merged with the first
#[kani::proof]
fn c11_lfo_frequency_change_takes_effect() {
    let k1: u16 = kani::any();
    let k2: u16 = kani::any();
    let (f1, f2) = (k1 as f32 / 4096.0, k2 as f32 / 4096.0);
    let mut l = Lfo::new(1000.0);
    l.set_frequency(f1);
    l.set_frequency(f2);
    l.tick();
    let inc = l.phase_accumulator.verif_acc(); // phase 0 + one increment (f2 <= 16 Hz: no wrap)
    let want = 16777216.0_f64 * f2 as f64;
    vassert!(inc as f64 * 1000.0 <= want * (1.0 + 1.1920928955078125e-7), "C11/set_frequency/change-takes-effect:not-too-fast");
    vassert!((inc as f64 + 1.0) * 1000.0 >= want * (1.0 - 1.1920928955078125e-7), "C11/set_frequency/change-takes-effect:not-too-slow");
    vcover!(k1 != k2 && (k1 as i32 - k2 as i32).abs() <= 2, "witness: change below 0.001 Hz");
    vcover!(k2 == 0 && k1 > 0, "witness: change to 0 Hz");
}
