#!/usr/bin/env python3
"""tools/try_mutant.py <name> <property> <dir-with-patch.diff+demo_mutant.rs> [--checks C04,C05] [--tier quick]

1. Confirms the seeded change independently on scratch copies of /repo's HEAD:
   with the patch: crate builds, the existing test suite passes, the demonstration fails;
   without the patch: the demonstration passes.
2. Keeps it as /verif/seeded/<name>/ (patch.diff, demo_mutant.rs, notes.txt, meta.json).
3. Runs the registered checks against a scratch copy with the patch applied
   (VERIF_REPO=<scratch>; same code path as against /repo) and records who catches it.
Scratch copies are removed afterwards."""
import json
import os
import shutil
import subprocess
import sys
import tempfile
import time

VERIF = os.path.dirname(os.path.dirname(os.path.abspath(__file__)))


def sh(cmd, cwd=None, env=None, timeout=3600):
    p = subprocess.run(cmd, cwd=cwd, env=env, shell=isinstance(cmd, str), capture_output=True, text=True, timeout=timeout)
    return p.returncode, p.stdout + p.stderr


def scratch(patch=None):
    d = tempfile.mkdtemp(prefix="mutrepo_")
    rc, out = sh("git -C /repo archive HEAD | tar -x -C %s" % d)
    if not os.path.exists(os.path.join(d, "Cargo.lock")):
        shutil.copy("/repo/Cargo.lock", d)
    if patch:
        rc, out = sh(["git", "apply", "--whitespace=nowarn", patch], cwd=d)
        if rc != 0:
            rc, out = sh("patch -p1 < %s" % patch, cwd=d)
            if rc != 0:
                raise SystemExit("patch does not apply: " + out)
    return d


def main():
    name, prop, src = sys.argv[1], sys.argv[2], sys.argv[3]
    checks = [prop]
    tier = "quick"
    for i, a in enumerate(sys.argv):
        if a == "--checks":
            checks = sys.argv[i + 1].split(",")
        if a == "--tier":
            tier = sys.argv[i + 1]
    patch = os.path.join(src, "patch.diff")
    demo = os.path.join(src, "demo_mutant.rs")
    env = dict(os.environ, CARGO_NET_OFFLINE="true")
    meta = {"name": name, "property": prop, "confirmed": {}, "checks": {}}
    m = scratch(patch)
    c = scratch(None)
    try:
        rc, out = sh("cargo test --offline 2>&1 | grep 'test result'", cwd=m, env=env)
        suite_ok = "FAILED" not in out and "test result: ok" in out and "62 passed" in out
        meta["confirmed"]["suite_passes_with_change"] = suite_ok
        for d in (m, c):
            os.makedirs(os.path.join(d, "tests"), exist_ok=True)
            shutil.copy(demo, os.path.join(d, "tests", "demo_mutant.rs"))
        rc_m, out_m = sh("cargo test --offline --test demo_mutant", cwd=m, env=env)
        rc_c, out_c = sh("cargo test --offline --test demo_mutant", cwd=c, env=env)
        meta["confirmed"]["demo_fails_with_change"] = rc_m != 0 and "test result: FAILED" in out_m
        meta["confirmed"]["demo_passes_without_change"] = rc_c == 0
        ok = all(meta["confirmed"].values())
        print("confirmed:", meta["confirmed"])
        dst = os.path.join(VERIF, "seeded", name)
        if ok and os.path.abspath(src) != os.path.abspath(dst):
            os.makedirs(dst, exist_ok=True)
            shutil.copy(patch, os.path.join(dst, "patch.diff"))
            shutil.copy(demo, os.path.join(dst, "demo_mutant.rs"))
            if os.path.exists(os.path.join(src, "notes.txt")):
                shutil.copy(os.path.join(src, "notes.txt"), os.path.join(dst, "notes.txt"))
        os.remove(os.path.join(m, "tests", "demo_mutant.rs"))
        shutil.rmtree(os.path.join(m, "target"), ignore_errors=True)
        for ck in checks:
            t0 = time.time()
            e2 = dict(env, VERIF_REPO=m, VERIF_EVIDENCE_DIR=tempfile.mkdtemp(prefix="mutev_"))
            rc, out = sh([os.path.join(VERIF, "check"), ck, "--tier", tier], cwd=VERIF, env=e2, timeout=7200)
            lines = [l for l in out.splitlines() if l.startswith(("VIOLATION", "failed obligations", "INCONCLUSIVE", "KNOWN", ck))]
            meta["checks"][ck] = {"exit": rc, "wall_s": round(time.time() - t0), "lines": [l[:300] for l in lines][:8]}
            print(ck, "exit", rc, "|", " / ".join(l[:160] for l in lines[:4]))
            shutil.rmtree(e2["VERIF_EVIDENCE_DIR"], ignore_errors=True)
        meta["caught_by"] = [k for k, v in meta["checks"].items() if v["exit"] == 1]
        meta["what_it_needs"] = open(os.path.join(src, "notes.txt")).read()[:1500] if os.path.exists(os.path.join(src, "notes.txt")) else ""
        meta["ran"] = "tools/try_mutant.py %s" % " ".join(sys.argv[1:])
        if ok:
            json.dump(meta, open(os.path.join(dst, "meta.json"), "w"), indent=1)
    finally:
        shutil.rmtree(m, ignore_errors=True)
        shutil.rmtree(c, ignore_errors=True)


if __name__ == "__main__":
    main()
