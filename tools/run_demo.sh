#!/bin/sh
# usage: tools/run_demo.sh <demo.rs> [git-ref|WORKTREE] [patch.diff]
# Runs a public-API demonstration test against a scratch copy of /repo (a git ref, or the
# current working tree when WORKTREE / omitted), optionally with a patch applied.  exit = cargo test's.
set -u
demo="$1"; ref="${2:-WORKTREE}"; patch="${3:-}"
d=$(mktemp -d /tmp/demo_XXXXXX)
if [ "$ref" = "WORKTREE" ]; then
  cp -r /repo/src /repo/Cargo.toml /repo/Cargo.lock /repo/README.md "$d"/
  [ -d /repo/examples ] && cp -r /repo/examples "$d"/
else
  git -C /repo archive "$ref" | tar -x -C "$d"
  [ -f "$d/Cargo.lock" ] || cp /repo/Cargo.lock "$d"/
fi
if [ -n "$patch" ]; then (cd "$d" && patch -p1 -s < "$patch") || { rm -rf "$d"; exit 3; }; fi
mkdir -p "$d/tests"; cp "$demo" "$d/tests/demo.rs"
(cd "$d" && CARGO_NET_OFFLINE=true cargo test --offline --test demo 2>&1 | grep -v "^warning\|^ *|\|^ *=\|^$\|-->" | tail -25; exit 0)
(cd "$d" && CARGO_NET_OFFLINE=true cargo test --offline --test demo >/dev/null 2>&1); rc=$?
rm -rf "$d"
exit $rc
