#!/usr/bin/env python3
"""Regenerates /verif/MANIFEST.json from the table below (run after editing)."""
import json, os
HERE = os.path.dirname(os.path.dirname(os.path.abspath(__file__)))

K = "bounded symbolic execution of the real Rust code with Kani 0.68 / CBMC 6.11 (SAT, CaDiCaL): kani::any() inputs, inductive step from an arbitrary valid state, counterexamples replayed natively"
CLAIMED = {
 "C20": dict(
   text="Solver verdict over all 2^32 f32 bit patterns of both clamping conversions, all 256 u8 note/channel values, and an arbitrary-state two-copy equivalence for out-of-range envelope inputs; exhaustive within the stated domain, no unwinding involved.",
   note="Trusts rustc/Kani codegen and CBMC's IEEE-754 max/min encoding (cross-checked by an independent MIR->SMT encoding decided with z3 and cvc5). 'Behaves identically' is established as bit-identical envelope state after set_input, which determines all later behaviour because the code is deterministic.",
   tech=K + "; second opinion: nightly MIR -> SMT-LIB2 (QF_FP) decided by z3 and cvc5", ref="§4 C20"),
}
NA_REASON = "check not built yet in this session (planned in DESIGN.md §4; solver-based harness in preparation)"

def main():
    props = [json.loads(l)["id"] for l in open(os.path.join(HERE, "properties.jsonl")) if l.strip()]
    checks = []
    na = []
    for p in props:
        if p in CLAIMED:
            c = CLAIMED[p]
            checks.append({
                "property_id": p,
                "quick_cmd": "./check %s --tier quick" % p,
                "thorough_cmd": "./check %s --tier thorough" % p,
                "evidence_file": "/verif/evidence/%s.json" % p,
                "replay_cmd_template": "./check %s --replay {path}" % p,
                "engine": "kani-cbmc" + ("+mir-smt" if "MIR" in c["tech"] else ""),
                "level_claimed": {"category": "model_checking", "text": c["text"], "design_ref": c["ref"]},
                "level_note": c["note"],
                "technique": c["tech"],
            })
        else:
            na.append({"property_id": p, "reason": NA_REASON})
    m = {
        "version": 1,
        "setup_cmd": "./setup.sh",
        "hooks": {
            "guard": "cfg(kani)",
            "enable": "none needed in /repo: checks copy /repo/src verbatim into a scratch crate and append `#[cfg(kani)] mod verif;` lines to the COPY (lib/stage.py); cargo-kani sets cfg(kani)",
            "baseline_off_cmd": "cd /repo && cargo test --workspace --no-fail-fast --offline",
            "source_commits": [],
            "add_only": True,
        },
        "engines": [
            {"name": "kani-cbmc", "path": "/verif/lib/kanirun.py", "serves_properties": sorted(CLAIMED),
             "kind_free_text": "Kani 0.68 proof harnesses (/verif/harness/*.rs) compiled together with /repo/src and decided by CBMC 6.11 + CaDiCaL"},
            {"name": "mir-smt", "path": "/verif/lib/mirsmt.py", "serves_properties": [p for p in sorted(CLAIMED) if "MIR" in CLAIMED[p]["tech"]],
             "kind_free_text": "symbolic execution of the nightly compiler's MIR of loop-free functions into SMT-LIB2 (QF_FPBV), decided by z3 and cvc5"},
        ],
        "checks": checks,
        "not_applicable": na,
        "notes": "Exit codes of ./check: 0 held, 1 replayed violation, 2 inconclusive (never reported as success). VERIF_SEED selects the additional slices a quick run adds to its fixed boundary set.",
    }
    json.dump(m, open(os.path.join(HERE, "MANIFEST.json"), "w"), indent=1)
    print("MANIFEST.json: %d checks, %d not_applicable" % (len(checks), len(na)))

if __name__ == "__main__":
    main()
