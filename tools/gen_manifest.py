#!/usr/bin/env python3
"""Regenerates /verif/MANIFEST.json from the table below (run after editing)."""
import json, os
HERE = os.path.dirname(os.path.dirname(os.path.abspath(__file__)))

K = "bounded symbolic execution of the real Rust code with Kani 0.68 / CBMC 6.11 (SAT, CaDiCaL): kani::any() inputs, inductive step from an arbitrary valid state, counterexamples replayed natively"
KM = K + "; float `%` path: nightly MIR -> SMT-LIB2 (QF_FPBV) decided by z3 and cvc5"
SL = "; relational float obligations are cut into 2^16-phase slice families (quick: boundary + VERIF_SEED slices, thorough: all 256)"
CLAIMED = {
 "C01": dict(text="Solver verdicts over every counter value (2^24) and every f32 level for range, phase-wise bounds, exact joint levels and 0.5% curve fidelity of the normalised segments (oracle curve generated at run time); monotonicity within a phase on 2^16-phase slices of both tables. Inductive over histories: tick() is shown to store calc_value() of a state satisfying the invariant, from any state satisfying it.",
   note="Monotonicity is decided for the normalised curves (start 0 / 1); for stretched segments it rests on value = start + (target-start)*normalised being one affine float expression (monotone rounding). Quick decides in-cell monotonicity via C03's slices only in the thorough tier (all 512 slices); the quick tier has monotonicity across cells for all positions (betweenness + monotone tables). Reference RC curves come from lib/oracle.py (documented formula, Python math.exp).",
   tech=K+SL, ref="§4 C01"),
 "C02": dict(text="One-step transition relation of tick()/gate_on()/gate_off() from an arbitrary valid envelope state with symbolic sample rate and times (phase order, guards, frame conditions), the exact counter relation incl. increments of several cycles per tick, and increment accuracy per fixed sample rate (6 quick / 13 thorough) with times on a 1/1024 s grid, which yields the stated duration window by a two-line calculation.",
   note="Duration is derived: phase ends on tick ceil(2^24/inc) (counter relation, proved for every inc) and inc lies in the window proved on the time grid for 6 (quick) / 13 (thorough) sample rates; off-grid times and other rates are outside the claim. Histories are covered by induction on the one-step relation.",
   tech=K, ref="§4 C02"),
 "C03": dict(text="Continuity decomposed into solver-decided facts: output equals the exact table interpolant within 2^-23 and adjacent counter values differ by at most steepest-slope*step+2ulp (slices of both tables), table endpoint/slope facts through the code's constants, exact hand-over levels at every segment joint, and gate events that restart the curve exactly at the level being output.",
   note="Per-tick bound for arbitrary increments follows from interpolant+slope facts by the triangle inequality (2*2^-23 slack); scaling to stretched segments is the affine expression argument of C01. Quick = 6 slices per table (boundary + seeded), thorough = all 512 = every counter value.",
   tech=K+SL, ref="§11.7"),
 "C04": dict(text="Inductive step per note event against an executable reference model (ordered list of outstanding note-ons): from ANY valid receiver state with up to K held notes (K=8 quick, 16 thorough; K=32 for All-Notes-Off), one note-on / note-off / All-Notes-Off leaves gate, note by priority, velocity and the held list equal to the model.",
   note="Handlers are driven directly (handle_note_on/off); that parse() calls the right handler with the right arguments after the right byte is C06's framing harness; both compose to the stream-level claim. Lists longer than the tier's K are outside the claim (K=32 note-off did not finish in 50 min).",
   tech=K, ref="§4 C04"),
 "C05": dict(text="Same inductive steps with the edge latches in the model (set exactly on a gate change, cleared by the opposite event), plus getters that return-and-clear only their own latch; 'exactly once' follows by induction over messages and polls.",
   note="As C04. The CC123 arm of parse() is real code in its harness; note handlers it never reaches are stubbed there to keep the other match arms small.",
   tech=K, ref="§4 C05"),
 "C06": dict(text="Differential check of the real parser+dispatch against a MIDI 1.0 running-status reference decoder: arbitrary parser state (symbolic 2-byte prefix) then N arbitrary bytes (N=4 quick, 7 thorough), every observable output compared after every byte; channel isolation and unsupported types in a separate all-inputs harness.",
   note="In the framing harness the two note handlers are replaced by call loggers (Kani stubs): what is compared is which handler ran with which arguments in which order plus all controller outputs; handler effects are C04/C05's steps, and an end-to-end harness with the real handlers cross-checks one complete message (thorough). Streams longer than 2+N bytes are covered inductively over the parser state (every parser state is reachable by a 2-byte prefix: inspection of midi-convert 0.1.3).",
   tech=K+"; Kani function stubbing for handler call logging", ref="§4 C06"),
 "C07": dict(text="From any quantizer state (all 4095 scales, any cached note 0..131 or power-on) and any f32 input incl. NaN/inf the reported pitch class is allowed now; allow/forbid with arbitrary slices keep the scale non-empty with the documented last-note rule; a two-call history convert-forbid-convert through the public API.",
   note="Loop bounds: octave loop 3, note loop 12 (unwindset discovered per build, unwinding assertions on).",
   tech=K, ref="§4 C07"),
 "C08": dict(text="All 4095 scales x every f32 input, in 11 octave slices, against the nearest-allowed-note rule evaluated in exact integer arithmetic (units of 1/12 microvolt) with the stated 10 microvolt tie tolerance.",
   note="Monotonicity in v is a consequence of the rule (same rule in every octave), not separately queried.",
   tech=K, ref="§4 C08"),
 "C09": dict(text="One conversion from any state with history: inside the widened window with the cached note still allowed the note is kept; otherwise the record equals that of a second, history-free real quantizer on the same input (differential); window edges in f64 with a 1 microvolt don't-care band.",
   note="The sequence-level consequences (one change under small noise, monotone sequences) follow from this step and C08's rule.",
   tech=K, ref="§4 C09"),
 "C10": dict(text="All 2^24 phase values: exact equality of saw/square/triangle with their references (f64, exact), range of all shapes, sine within the stated 0.0125 of sin(2*pi*phase) for every phase of each table cell (oracle generated at run time), get() leaves the oscillator bit-identical.",
   note="Sine fidelity is decided as |y - sin(cell midpoint)| <= 0.0125 - max in-cell deviation, a sufficient condition slightly stricter than the statement.",
   tech=K, ref="§4 C10"),
 "C11": dict(text="Counter-level arithmetic for every state/increment (tick, reset, set_frequency frame), increment accuracy per fixed sample rate on two 16-bit frequency grids, and set_phase for EVERY finite f32 via the MIR->SMT engine (range, fractional part within 2^-22 cycle, negative mirror).",
   note="CBMC's f32 remainder is wrong, so set_phase is never decided with Kani. 'Depends only on p modulo 1' is established as: negative p equals its mirror exactly, and non-negative p yields frac(p) within 2^-22. z3 may time out on the fraction query; it is then decided by cvc5 alone and reported so. Translator validated on 20 inputs against the native function each run.",
   tech=KM, ref="§4 C11"),
 "C12": dict(text="Triangle: exact integer reference + Lipschitz fact for every phase and every increment. Sine: output equals the wrapping table interpolant within 2^-23 and adjacent phases differ by <= 2*pi*1.002*step+2ulp on slices (incl. the wrap), table slope facts for all cells, and an all-phase betweenness query.",
   note="Larger increments follow from interpolant+slope facts (triangle inequality, 2*2^-23 slack). Quick = boundary + seeded slices of the sine; thorough all 256.",
   tech=K+SL, ref="§4 C12"),
 "C13": dict(text="For ANY f32 time in [0,10] at fixed sample rates the installed coefficients are a one-pole low-pass with non-negative weights and pole in [0,1) (never negative beyond rounding, never on the unit circle), decided for the whole tan contract; the state handling of process()/set_time() is decided by a public-API history harness (4 samples, set_time in the middle incl. glide off/on, every returned output within the hull of the inputs and the previous returned output, monotone approach of a held input).",
   note="tan is foreign code (libm via std): replaced by a contract (convex envelope, 256 segments, plus a 1.5e-7 linearisation at pi/4). Not decidable here and stated as such: 'weights sum to 1' (two f32 dividers: evaluated concretely at 8 settings per rate with one representative tangent, otherwise a three-rounding argument) and the one-step hull property for arbitrary coefficients/state (optional thorough harness, did not finish in 40 min). The history harness uses one representative of the tan contract and inputs from {-1,-0.5,0,0.5,1}. 'Settles on it' is claimed as pole < 1 and monotone approach, not as a limit.",
   tech=K+"; Kani stub with contract for the foreign tanf", ref="§11.2 Glide"),
 "C14": dict(text="Dead band, clamps and pole placement decided at the coefficient level for every f32 argument: set_time ignored iff within 0.05 s of the time in effect (then nothing changes), t<2/fs (incl. -0.0) requests exactly the fastest response with pole <= 0.25, t>10 requests exactly the response of t=10; for N=t*fs>=100 the pole satisfies 5.298/N <= 1-p, (1-p)/p <= 7.666/N on a 1/16 s grid per fixed rate; plus the public-API history harness of C13 (process() really runs the recurrence on the returned outputs).",
   note="The step-response percentages follow from the pole window and the closed form error = (1-b0)*p^n of a one-pole recurrence (stated assumption); N-step responses are not unrolled. tan replaced by its contract.",
   tech=K+"; Kani stub with contract for the foreign tanf", ref="§11.2 Glide"),
 "C15": dict(text="Inductive step of poll() from any state consistent with an unbroken run of any length against a run-length model (three capacities: 18, 35, 171), plus bounded public-API histories with a symbolic in/out-of-range pattern at small capacities.",
   note="Histories at capacities 4 and 9; larger capacities by the inductive step (the code is generic in the capacity).",
   tech=K, ref="§4 C15"),
 "C16": dict(text="Step-level differential on the poll that reports/refreshes the value: buffer filled without branching (left-over samples of an earlier press, then the current run), one real poll(); a second controller differing in the left-over samples and in the samples inside the finger-lift allowance reports the bit-identical value in [0,1]; between-min-max and monotonicity through the public API at capacity 4; settle/allowance counts of new() for every integer rate 100..192000; edge resistor triples through poll(); run-counter invariant shared with C15.",
   note="Value step at capacity 9 (capacity 18 did not finish in 50 min); between/monotone on a 2^-4 grid at capacity 4; resistor triples through poll() are four concrete ones incl. the weakest allowed pull-up (fully symbolic triples only at the level of error_estimate()).",
   tech=K, ref="§11.2 Ribbon"),
 "C17": dict(text="Kani's built-in checks (overflow, index, division, unwrap, debug_assert, casts) over every harness that drives a public operation with symbolic arguments from an arbitrary valid state, plus public-API call sequences per module and the progress argument (increment >= 1, tick advances or ends the phase).",
   note="Dev-profile semantics (overflow checks and debug assertions on). set_phase is covered by the MIR->SMT range query (C11). Glide at fixed sample rates with tan contract.",
   tech=K, ref="§4 C17"),
 "C18": dict(text="One controller or pitch-bend message with any number/value from any receiver state against the documented routing table; strict monotonicity and end points of value/127 and of the 14-bit bend over all values.",
   note="Note handlers stubbed (irrelevant to controller messages) to keep the dispatch match small.",
   tech=K, ref="§4 C18"),
 "C19": dict(text="One conversion from any state, any scale, any f32: stairstep == note/12, stairstep+fraction reproduces the input within 2 ulp (or the clamped value outside the range), fraction ranges for chromatic/no-history and kept-note cases.",
   note="As C07 for loop bounds.", tech=K, ref="§4 C19"),
 "C20": dict(
   text="Solver verdict over all 2^32 f32 bit patterns of both clamping conversions, all 256 u8 note/channel values, and an arbitrary-state two-copy equivalence for out-of-range envelope inputs; exhaustive within the stated domain, no unwinding involved.",
   note="Trusts rustc/Kani codegen and CBMC's IEEE-754 max/min encoding (cross-checked by an independent MIR->SMT encoding decided with z3 and cvc5). 'Behaves identically' is established as bit-identical envelope state after set_input, which determines all later behaviour because the code is deterministic.",
   tech=K + "; second opinion: nightly MIR -> SMT-LIB2 (QF_FP) decided by z3 and cvc5", ref="§4 C20"),
}
NA_REASON = "check not built yet in this session (planned in DESIGN.md §4; solver-based harness in preparation)"

def main():
    props = [json.loads(l)["id"] for l in open(os.path.join(HERE, "properties.jsonl")) if l.strip()]
    checks = []
    na = []
    for p in props:
        if p in CLAIMED:
            c = CLAIMED[p]
            checks.append({
                "property_id": p,
                "quick_cmd": "./check %s --tier quick" % p,
                "thorough_cmd": "./check %s --tier thorough" % p,
                "evidence_file": "/verif/evidence/%s.json" % p,
                "replay_cmd_template": "./check %s --replay {path}" % p,
                "engine": "kani-cbmc" + ("+mir-smt" if "MIR" in c["tech"] else ""),
                "level_claimed": {"category": "model_checking", "text": c["text"], "design_ref": c["ref"]},
                "level_note": c["note"],
                "technique": c["tech"],
            })
        else:
            na.append({"property_id": p, "reason": NA_REASON})
    m = {
        "version": 1,
        "setup_cmd": "./setup.sh",
        "hooks": {
            "guard": "cfg(kani)",
            "enable": "none needed in /repo: checks copy /repo/src verbatim into a scratch crate and append `#[cfg(kani)] mod verif;` lines to the COPY (lib/stage.py); cargo-kani sets cfg(kani)",
            "baseline_off_cmd": "cd /repo && cargo test --workspace --no-fail-fast --offline",
            "source_commits": [],
            "add_only": True,
        },
        "engines": [
            {"name": "kani-cbmc", "path": "/verif/lib/kanirun.py", "serves_properties": sorted(CLAIMED),
             "kind_free_text": "Kani 0.68 proof harnesses (/verif/harness/*.rs) compiled together with /repo/src and decided by CBMC 6.11 + CaDiCaL"},
            {"name": "mir-smt", "path": "/verif/lib/mirsmt.py", "serves_properties": ["C11", "C20"],
             "kind_free_text": "symbolic execution of the nightly compiler's MIR of loop-free functions into SMT-LIB2 (QF_FPBV), decided by z3 and cvc5"},
        ],
        "checks": checks,
        "not_applicable": na,
        "notes": "Exit codes of ./check: 0 held, 1 replayed violation, 2 inconclusive (never reported as success). VERIF_SEED selects the additional slices a quick run adds to its fixed boundary set.",
    }
    json.dump(m, open(os.path.join(HERE, "MANIFEST.json"), "w"), indent=1)
    print("MANIFEST.json: %d checks, %d not_applicable" % (len(checks), len(na)))

if __name__ == "__main__":
    main()
