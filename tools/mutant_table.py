#!/usr/bin/env python3
"""Prints the markdown table of seeded changes (seeded/*/meta.json) for DESIGN.md."""
import glob, json, os
HERE = os.path.dirname(os.path.dirname(os.path.abspath(__file__)))
print("| seeded change | property | needs | caught by (quick tier) | failed obligation |")
print("|---|---|---|---|---|")
for f in sorted(glob.glob(os.path.join(HERE, "seeded", "*", "meta.json"))):
    m = json.load(open(f))
    notes = " ".join(m.get("what_it_needs", "").replace("|", "/").split())[:160]
    caught = ", ".join(m.get("caught_by", [])) or "**missed**"
    obl = ""
    for ck, v in m.get("checks", {}).items():
        for l in v.get("lines", []):
            if l.startswith("failed obligations"):
                obl = l.split(":", 1)[1].strip()[:110]
                break
        if obl:
            break
    print("| %s | %s | %s | %s | %s |" % (m["name"], m["property"], notes, caught, obl))
