#!/bin/sh
# usage: tools/runq.sh <tier> <cap-seconds> ID...   -- runs checks one after another, logs under /tmp/q_<ID>.<tier>.log
tier="$1"; cap="$2"; shift 2
for id in "$@"; do
  start=$(date +%s)
  timeout "$cap" ./check "$id" --tier "$tier" > "/tmp/q_$id.$tier.log" 2>&1
  echo "exit=$? wall=$(( $(date +%s) - start ))s" >> "/tmp/q_$id.$tier.log"
done
