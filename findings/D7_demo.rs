// D7: the ribbon's run counters were only reset when a press had already been reported, so
// in-range samples separated by out-of-range samples added up: a few short taps, or isolated
// in-range glitches, eventually produced a press (C15), whose value was an average over
// samples of different taps (C16).
use synth_utils::ribbon_controller::*;

const FS: u32 = 10_000;
const CAP: usize = sample_rate_to_capacity(FS);

#[test]
fn short_taps_do_not_add_up_to_a_press() {
    let mut rib: RibbonController<CAP> = RibbonController::new(FS as f32, 20E3, 820.0, 1E6);
    // a press needs 180 uninterrupted samples at 10 kHz; tap 5 times for 50 samples (5 ms) each
    for _ in 0..5 {
        for _ in 0..50 {
            rib.poll(0.3);
            assert!(!rib.finger_is_pressing(), "a 5 ms tap was reported as a press");
        }
        for _ in 0..100 {
            rib.poll(1.0);
        }
    }
}

#[test]
fn isolated_glitches_never_produce_a_press() {
    let mut rib: RibbonController<CAP> = RibbonController::new(FS as f32, 20E3, 820.0, 1E6);
    for _ in 0..1_000 {
        rib.poll(0.5); // one in-range glitch ...
        assert!(!rib.finger_is_pressing(), "isolated glitches were reported as a press");
        rib.poll(1.0); // ... between open-circuit readings
    }
}
