// D2: the sine's upper interpolation neighbour was (i+1) % (SIZE-1): cell 1022 interpolated
// towards entry 0 and cell 1023 towards entry 1 (+0.006), a glitch at the cycle wrap (C12).
use synth_utils::lfo::*;

#[test]
fn sine_is_continuous_across_the_wrap() {
    let mut lfo = Lfo::new(1_000.0);
    lfo.set_frequency(0.001); // 16 counter values per tick
    lfo.set_phase(0.9975); // a little before cell 1022
    let step = 16.0 / 16_777_216.0_f64;
    let bound = 2.0 * core::f64::consts::PI * 1.002 * step + 2.0 * (f32::EPSILON as f64);
    let mut last = lfo.get(Waveshape::Sine) as f64;
    for n in 0..4_000 {
        lfo.tick();
        let v = lfo.get(Waveshape::Sine) as f64;
        assert!((v - last).abs() <= bound, "tick {}: sine jumped by {}", n, v - last);
        last = v;
    }
}

#[test]
fn end_of_cycle_is_not_positive() {
    let mut lfo = Lfo::new(1_000.0);
    lfo.set_phase(0.99999);
    // sin(2*pi*0.99999) = -6e-5; the last table cell ends at 0
    assert!(lfo.get(Waveshape::Sine) <= 1e-6, "sine at the very end of the cycle: {}", lfo.get(Waveshape::Sine));
}
