// D4: convert() validated the cached note with Note::from(note_num), which clamps every note
// number >= 12 to B.  Above octave 0 a note that has just been forbidden is therefore still
// reported while the input stays in its window (C07), and hysteresis is switched off whenever B
// is forbidden (C09).
use synth_utils::quantizer::*;

#[test]
fn forbidden_note_is_not_reported_after_scale_edit_in_octave_2() {
    let mut q = Quantizer::new();
    let v = 2.0 + 10.3 / 12.0; // a bit above A#2
    assert_eq!(q.convert(v).note_num, 34);
    q.forbid(&[Note::ASHARP]);
    let n = q.convert(v).note_num;
    assert_ne!(n % 12, 10, "A# is forbidden but note {} was reported", n);
}

#[test]
fn hysteresis_works_above_octave_0_when_b_is_forbidden() {
    let mut q = Quantizer::new();
    q.forbid(&[Note::B]);
    // settle on C#1 (note 13), then move to just below the C#1/C1 boundary: inside the widened window
    assert_eq!(q.convert(1.0 + 1.5 / 12.0).note_num, 13);
    assert_eq!(q.convert(1.0 + 0.95 / 12.0).note_num, 13, "hysteresis lost above octave 0");
}
