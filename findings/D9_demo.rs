// D9: set_time(-0.0).  Negative zero is a time of zero ("glide off"), but its reciprocal is
// negative infinity, which the cutoff clamp turned into the MINIMUM cutoff: the slowest glide
// (10 s) instead of none (C14 "times shorter than two samples select the fastest response",
// C13 "including 0, the 'glide off' setting").  -0.0 is what e.g. `0.0 * -1.0` or a knob mapping
// like `(pos - pos) * -k` produces.
use synth_utils::glide_processor::*;

#[test]
fn negative_zero_time_means_glide_off() {
    let mut g = GlideProcessor::new(1_000.0);
    g.set_time(0.5);
    g.process(0.0);
    g.set_time(-0.0);
    let mut out = 0.0;
    for _ in 0..8 {
        out = g.process(1.0);
    }
    assert!((out - 1.0).abs() < 1e-4, "glide switched off with -0.0, but after 8 samples the output is only {}", out);
}
