// D8: the glide processor's fastest cutoff was fs/2, where the bilinear one-pole design puts
// the pole at -1 (tan(pi/2) overflows to -2.3e7 in f32): y[n] = x[n] + x[n-1] - y[n-1].
// Switching to "glide off" (or any time below 4/fs) in the middle of a glide therefore rings
// for ever around the target instead of settling (C13), and never "settles within 8 samples" (C14).
use synth_utils::glide_processor::*;

#[test]
fn glide_off_in_mid_glide_settles_without_ringing() {
    let mut g = GlideProcessor::new(1_000.0);
    g.set_time(0.5);
    for _ in 0..100 {
        g.process(1.0); // part of the way to 1.0
    }
    g.set_time(0.0); // glide off
    let mut out = 0.0;
    for n in 0..64 {
        out = g.process(1.0);
        assert!(out <= 1.0 + 1e-6, "sample {}: overshoot to {}", n, out);
    }
    assert!((out - 1.0).abs() < 1e-6, "still at {} after 64 samples with the glide switched off", out);
}

#[test]
fn time_below_four_samples_does_not_overshoot() {
    let mut g = GlideProcessor::new(1_000.0);
    g.set_time(0.5);
    g.process(0.0);
    g.set_time(0.003); // 3 samples
    let mut last = 0.0;
    for n in 0..32 {
        let out = g.process(1.0);
        assert!(out >= last - 1e-6 && out <= 1.0 + 1e-6, "sample {}: {} after {}", n, out, last);
        last = out;
    }
}
