// D6: gate edges (C05).  All-Notes-Off cleared the falling-gate latch instead of setting it, so a
// release caused by CC123 was never reported; and a note-off with nothing held (or CC123 twice,
// or a stray velocity-0 note-on) set the falling latch although the gate never changed.
use synth_utils::mono_midi_receiver::*;

fn feed(mr: &mut MonoMidiReceiver, bytes: &[u8]) {
    for b in bytes {
        mr.parse(*b);
    }
}

#[test]
fn all_notes_off_reports_a_falling_edge() {
    let mut mr = MonoMidiReceiver::new(0);
    feed(&mut mr, &[0x90, 60, 100]);
    assert!(mr.gate());
    feed(&mut mr, &[0xB0, 123, 0]);
    assert!(!mr.gate());
    assert!(mr.falling_gate(), "gate went high -> low but no falling edge was reported");
    assert!(!mr.falling_gate());
}

#[test]
fn stray_note_off_reports_no_edge() {
    let mut mr = MonoMidiReceiver::new(0);
    feed(&mut mr, &[0x80, 60, 0]);
    assert!(!mr.gate());
    assert!(!mr.falling_gate(), "falling edge reported although the gate was never high");
}

#[test]
fn unread_falling_edge_survives_all_notes_off() {
    let mut mr = MonoMidiReceiver::new(0);
    feed(&mut mr, &[0x90, 60, 100, 0x80, 60, 0]); // press, release: falling edge pending
    feed(&mut mr, &[0xB0, 123, 0]); // panic button while nothing is held
    assert!(mr.falling_gate(), "the pending falling edge was lost");
}
