// D1: PhaseAccumulator::fraction() returned the whole counter / (2^24-1) instead of the
// position inside the current table cell, so table "interpolation" was a 1024-step
// staircase: ADSR (C03) and LFO sine (C12) jump at every cell boundary.
use synth_utils::adsr::*;
use synth_utils::lfo::*;

#[test]
fn slow_sine_has_no_steps() {
    // 0.001 Hz at 1 kHz: 16 counter values per tick, 1024 ticks per table cell
    let mut lfo = Lfo::new(1_000.0);
    lfo.set_frequency(0.001);
    let step = 16.0 / 16_777_216.0_f64;
    let bound = 2.0 * core::f64::consts::PI * 1.002 * step + 2.0 * (f32::EPSILON as f64);
    let mut last = lfo.get(Waveshape::Sine) as f64;
    for n in 0..5_000 {
        lfo.tick();
        let v = lfo.get(Waveshape::Sine) as f64;
        assert!((v - last).abs() <= bound, "tick {}: sine jumped by {}", n, v - last);
        last = v;
    }
}

#[test]
fn slow_attack_has_no_steps() {
    // 20 s attack at 48 kHz: 17 counter values per tick
    let mut adsr = Adsr::new(48_000.0);
    adsr.set_input(Input::Attack(20.0.into()));
    adsr.gate_on();
    let mut last = adsr.value();
    for n in 0..5_000 {
        adsr.tick();
        let v = adsr.value();
        // steepest attack cell rises 0.00177 per 1/1024 of the phase: < 2e-6 per tick
        assert!((v - last).abs() <= 1e-5, "tick {}: envelope jumped by {}", n, v - last);
        last = v;
    }
}
