// D3: an envelope phase of one sample or less may never end, or lasts many times too long
// (C02 "at least one tick ... at most N/(1-N/2^24)+2 ticks", C17 "reaches its sustain level
// after finitely many ticks").  Rollover was detected by `acc' < last` after masking, which
// is never true when the per-tick increment is a whole number of cycles and only occasionally
// true when it is a little more than one cycle.
use synth_utils::adsr::*;

#[test]
fn one_cycle_per_tick_never_ends() {
    // 1/256 s at 256 Hz: the increment is exactly 2^24, the counter stays at 0 for ever
    let mut adsr = Adsr::new(256.0);
    adsr.set_input(Input::Attack(0.00390625.into()));
    adsr.set_input(Input::Decay(0.00390625.into()));
    adsr.set_input(Input::Sustain(0.5.into()));
    adsr.gate_on();
    for _ in 0..100_000 {
        adsr.tick();
    }
    assert_eq!(adsr.value(), 0.5, "still not sustaining after 100000 ticks (6.5 minutes)");
}

#[test]
fn slightly_more_than_one_cycle_per_tick_takes_ten_ticks() {
    // 1 ms at 900 Hz is 0.9 samples: must be over after at most 0.9/(1-0.9/2^24)+2 < 3 ticks
    let mut adsr = Adsr::new(900.0);
    adsr.set_input(Input::Attack(0.001.into()));
    adsr.set_input(Input::Decay(20.0.into()));
    adsr.set_input(Input::Sustain(0.0.into()));
    adsr.gate_on();
    for _ in 0..3 {
        adsr.tick();
    }
    // the attack is over: we are near the very top of a 20 s decay
    assert!(adsr.value() > 0.99, "attack still running after 3 ticks: {}", adsr.value());
}
