// D5: find_nearest_note scanned the octaves in the order [o, o-1, o+1] with an early exit
// that assumes ascending order: above octave 0 the octave above the input was never reached
// when the scale is sparse, so a note almost an octave away was preferred to a near one (C08).
use synth_utils::quantizer::*;

#[test]
fn nearest_c_above_is_found_in_octave_1() {
    let mut q = Quantizer::new();
    q.forbid(&[
        Note::CSHARP, Note::D, Note::DSHARP, Note::E, Note::F, Note::FSHARP,
        Note::G, Note::GSHARP, Note::A, Note::ASHARP, Note::B,
    ]);
    // only C is allowed; 1.6 V is 0.4 V from C2 (note 24) and 0.6 V from C1 (note 12)
    assert_eq!(q.convert(1.6).note_num, 24);
}

#[test]
fn same_rule_in_octave_0_and_octave_3() {
    let only_c = |v: f32| {
        let mut q = Quantizer::new();
        q.forbid(&[
            Note::CSHARP, Note::D, Note::DSHARP, Note::E, Note::F, Note::FSHARP,
            Note::G, Note::GSHARP, Note::A, Note::ASHARP, Note::B,
        ]);
        q.convert(v).note_num
    };
    assert_eq!(only_c(0.7), 12);
    assert_eq!(only_c(3.7), 48);
}
